#!/bin/bash
# usage: confirm_seed.sh <id> <demo test args...>
# Confirms a seeded change in its scratch worktree /tmp/wt-<id>: builds (with and
# without hooks), lib tests with the change, demo with and without the change.
id=$1; shift
wt=${SEED_WT:-/tmp/wt-$id}; out=$wt/out; log=$out/confirm.log
export CARGO_TARGET_DIR=${SEED_TARGET:-$wt/target} CARGO_NET_OFFLINE=true
cd $wt || exit 2
git checkout -q -- . ; git clean -fdq -e out -e target
git apply $out/demo.diff || { echo "demo.diff does not apply" | tee $log; exit 2; }
{
echo "== demo WITHOUT change"; touch src/lib.rs; cargo test --offline "$@" 2>&1 | grep -E "^test |test result|panicked" | head -20
git apply $out/patch.diff || echo "PATCH DOES NOT APPLY"
echo "== build with change"; touch src/lib.rs; cargo build --offline 2>&1 | tail -1
echo "== build with change + hooks"; cargo build --offline --features verif-hooks 2>&1 | tail -1
echo "== lib tests WITH change"; cargo test --offline --lib 2>&1 | grep -E "test result|FAILED" | head
echo "== demo WITH change"; cargo test --offline "$@" 2>&1 | grep -E "^test |test result|panicked" | head -20
} > $log 2>&1
git checkout -q -- . ; git clean -fdq -e out -e target
cat $log
