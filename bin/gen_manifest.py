#!/usr/bin/env python3
"""Generates /verif/MANIFEST.json from the table below."""
import json, subprocess

HOOK_COMMITS = subprocess.run(
    ["git", "-C", "/repo", "log", "--format=%H %s", "--grep=^verif-hooks:"],
    capture_output=True, text=True).stdout.strip().splitlines()

E1_NOTE = ("Trusted: rpki crate validation side + OpenSSL as RP primitives; canonical state projection "
           "(DESIGN 3.5); virtual clock via clock_gettime interposition; key pool (H6) for EE keys. "
           "Bounded to the stated topology, alphabet and depth.")

CHECKS = {
  "C01": dict(
    engine="E1", category="model_checking", design="4/C01",
    technique="explicit-state exploration (fork-checkpointed DFS with shared seen-set) of the real krill code over operation sequences; RP-walk + intent-model oracle on every state",
    text="Every operation sequence up to the completed depth over the C01 alphabet, from the TA->parent->ca->gc world (aggregation thresholds 2/2; thorough adds default thresholds, a second parent and the full alphabet), is executed on the real code; after every transition an independent top-down RP validation of the RRDP snapshot must accept everything, find no missing/unlisted file, and yield exactly intent ∩ coverage.",
    note=E1_NOTE),
}

CHECKS["C09"] = dict(
    engine="E1", category="model_checking", design="4/C09",
    technique="explicit-state BFS over schedule/claim/finish/reschedule/tick sequences on the real Queue and TaskQueue against a reference queue, plus fork-checkpointed exploration of a world with claim-and-crash / restart operations",
    text="(a) every operation sequence up to depth 5 (10 thorough) on the real Queue, compared step by step with a reference queue (earliest-due-first, soonest-wins, if-missing); (b) every sequence up to depth 5 (10) on the real TaskQueue including the start-up re-queue logic, with 0 to 4 tasks running at restart; (c) world exploration (depth 4 quick, up to 8 thorough) where the daemon dies after claiming a task or with tasks pending, restarts, and must end with nothing stuck in running, all recurring tasks queued and the C01 oracle holding. (d) the real start-up path (StartupManager::run_scheduler, real scheduler thread) from crashed states with 0-2 running tasks; (e) binding of the scheduler stand-in: from 6 (10 thorough) states with due work - tasks ending as done, follow-up and reschedule - the queue is drained once by the stand-in every world-based check uses and once by the real scheduler::run loop on its own thread; canonical state and queue must be equal.",
    note=E1_NOTE + " A crash while a task runs is modelled as claim-without-effect + restart; crashes inside a task body belong to C08.")

CHECKS["C02"] = dict(
    engine="E1", category="model_checking", design="4/C02",
    technique="explicit-state exploration (fork-checkpointed DFS) of entitlement-change histories on the real code, an invariant after every repository synchronisation, convergence and idempotence oracles after a bounded number of sync rounds",
    text="Every sequence (up to the completed depth) of entitlement changes at two levels (grow, partial overlap, disjoint, regain), suspend/unsuspend, class-name mapping world, key rolls (thorough) is executed; after each repository sync of a CA its published child certificates must lie within the certificate it holds and every active child's certificate must have been replaced (not dropped); the same invariant is evaluated at every quiescent instant of the refresh round that follows each operation (after each CA has synchronised with its parents and before its children call in); after two top-down sync rounds every child must hold exactly entitlement ∩ issuer with no open request, and a further round must add no command and change no published byte.",
    note=E1_NOTE + " One deterministic scenario (issuer shrinks while a child has not yet picked up a changed entitlement) is run besides the exploration; what it shows is a recorded known finding.")
CHECKS["C03"] = dict(
    engine="E1", category="model_checking", design="4/C03",
    technique="explicit-state exploration (fork-checkpointed DFS) with a path-carried history monitor of every (issuer key, serial) ever accepted by the RP walk; CRL membership checked on every later state",
    text="Every sequence (up to the completed depth) of removal/replacement operations (ROA/ASPA/BGPsec removal and forced re-issue, child remove/suspend, entitlement loss, key roll, parent removal, CA deletion with children) in worlds with and without class-name mapping and with two parents; every object that stops being current must be gone after the next synchronisation and its serial must be - and stay - on the issuing key's CRL while that key publishes one and the object is unexpired.",
    note=E1_NOTE)

CHECKS["C04"] = dict(
    engine="E1+E2", category="model_checking", design="4/C04",
    technique="explicit-state exploration (fork-checkpointed DFS) of key-roll steps interleaved with other operations on the real code; single-signer / RP-safety invariants in every state and a completion oracle run on a forked copy of every state; plus preemption-bounded exploration of thread schedules (engine E2) of the activation request against a running parent synchronisation",
    text="Every interleaving (up to the completed depth) of roll initiate/activate, task steps and pumps with ROA/ASPA/BGPsec changes, entitlement changes at both levels, child requests, a second roll and restarts, for a CA under a normal parent, for a CA directly under the TA (proxy/signer exchange), with raw task-by-task stepping (RollPending/RollNew/RollOld all visited) and (thorough) two resource classes; in every state at most one key per class publishes products, nothing invalid or extra is published, nothing panics; from every state the continuation settle-activate-settle (x2) ends with one active key per class, no open request and the full C01 oracle holding.",
    note=E1_NOTE + " Thread schedules: the activation request against a parent synchronisation whose exchanges are separate CA commands (coverage.interleavings: no product lost right afterwards, class not dropped, roll completes); other thread combinations are C18's subject.")
CHECKS["C06"] = dict(
    engine="E1", category="model_checking", design="4/C06",
    technique="explicit-state exploration (fork-checkpointed DFS) with a differential oracle at every state: live aggregates vs fresh stores on the same storage (snapshot + later commands) vs a restarted instance on a forked copy with all snapshots deleted (replay from command 0)",
    text="At every explored state (C01 alphabet plus real UpdateSnapshots runs, rejected commands, identity update, publisher removal) (alphabet now with child suspension / re-activation) the serde view of every CertAuth, the TA proxy, the TA signer, the repository access aggregate and the repository content log as loaded by a fresh store equals the running instance's (masking exactly last_key_change / since), and an instance restarted on the log alone (snapshots removed) yields identical API views (CA info, configured ROAs, ASPA, BGPsec, child info, publisher files, repo stats); replay never fails or panics. Right after every snapshot run, the running instance and an instance restarted from the snapshots are each given every operation of the alphabet (on forked copies): both must reach the same canonical state (one-step bisimulation; this sees what the snapshot serialisation itself leaves out).",
    note=E1_NOTE)

CHECKS["C05"] = dict(
    engine="E4", category="model_checking", design="4/C05",
    technique="bounded-exhaustive enumeration of request contents x CA states against a reference accept/refuse predicate; every request executed by the real CaManager on a forked copy of the state, with before/after comparison",
    text="Every request of finite menus (all ROA deltas of <=2 (quick) / <=4 (thorough) entries out of 11 additions and 3 removals covering implicit/explicit/invalid max length, unheld, v6, AS0, present with same/new comment, duplicates; ASPA set/delete/provider updates; BGPsec add with valid and corrupted CSR / delete; child add/update with six resource sets) against eight CA states (empty, configured, configured-then-shrunk, configured and then the customer/router AS taken away, aggregated, mid-roll, after activation of the new key, two parents with overlapping resources): refusal exactly when the property text demands it, refused requests change nothing but one audit record (configuration, published-object set, repository, queue compared), accepted ones are applied as a whole.",
    note="Reference predicate written from the property text; cases the text does not decide (duplicates inside a delta, no-op replacements, lenient provider-set updates, update of an existing child to nothing) are only checked for atomicity. Trusted: fork-copy isolation of the state.")

CHECKS["C14"] = dict(
    engine="E1", category="model_checking", design="4/C14",
    technique="explicit-state exploration (fork-checkpointed DFS) with the virtual clock as an operation; maintenance runs (republish + renew) checked in two phases against undecoded-validity observations of every manifest, CRL and signed object",
    text="Every sequence (up to the completed depth) of clock steps placed one second before / two seconds inside each re-issue margin (manifest/CRL and object expiry), one hour and (with parent refresh and TA renewal) long jumps, content changes, key-roll steps (staging and old key sets present) and maintenance runs, under 5 (7 thorough) configurations - among them three in which the harness decides the next-update jitter that krill draws at random by default (hook H8; alternately none / the maximum of four hours), two of them built in the middle of a key roll with the staging resp. old key's manifest and CRL coming due hours before the current key's: every key set within the margin is re-issued by exactly one number and published, sets and objects not due are untouched (nothing due => repository byte-identical), objects within their re-issue margin get a new serial and later expiry, manifest number == CRL number and never decreases, windows contain the present, payloads unchanged, tree RP-valid after the run.",
    note=E1_NOTE + " Krill's config validation forbids margin >= lifetime for manifests and ROAs, so 'equal/larger' margins cannot be configured for those; explored configurations are (24h/8h, 52w/4w), (2h/1h, 2w/1w), (3h/2h, 3w/2w).")

CHECKS["C19"] = dict(
    engine="E1", category="model_checking", design="4/C19",
    technique="explicit-state exploration (fork-checkpointed DFS) over histories of successful and refused exchanges; after every operation the check itself performs the most recent parent and repository synchronisation of every CA and compares the status/issue views with the known outcome, the parent's list response and the server's content; restart differential on a forked copy",
    text="Every sequence (up to the completed depth) of content changes, entitlement changes, child removal/re-add at the parent, publisher removal/re-add at the server, suspension, child/parent/CA removal, key-roll steps and restarts: for every CA and parent the status shows failure (with exactly the error of the attempt) iff the most recent attempt failed, otherwise the entitlements of the parent's last list response; the published-object list equals the server's list reply after the last successful sync; the parent shows the outcome of the child's last request; a restart changes no status field; removal of parent/child/CA removes the entries (also from storage).",
    note=E1_NOTE + " Local exchanges bypass CMS, so one-sided identity replacement cannot fail here (C12 covers the signed path).")

CHECKS["C17"] = dict(
    engine="E4", category="model_checking", design="4/C17",
    technique="bounded-exhaustive enumeration of (ROA set, announcement set, held resources, scope limit, duplicate variant) inputs on the real analyser (real RISwhois text parser and prefix tree via hook H4) compared with a brute-force RFC 6811 validator: verdict per announcement, per-ROA authorises/disallows attribution, and validity preservation when all suggestions are followed",
    text="Every ROA set of at most 2 (thorough: 3) ROAs and every announcement set of at most 2 (thorough: 3) announcements over nested-prefix universes (IPv4 /22../24 under a /8 plus an outside prefix; IPv6 /46../48 under a /32; edge: /0, /1, /31, /32, ::/0, /127, /128), max lengths at prefix length / in between / family maximum, ROA origins {0,1,2}, announcement origins {1,2,3}, held resources {all, half}, scope limits {none, half, quarter}, duplicated ROA configuration / duplicated RISwhois line: each announcement in the CA's resources gets the RFC 6811 verdict (valid / invalid / not found), each reported ROA's authorises and disallows sets equal the brute-force attribution, and removing/replacing all ROAs as suggested leaves every valid announcement valid.",
    note="Sub-kinds of invalid (length/ASN/AS0) are not distinguished. Announcements with origin AS0 are not in the alphabet. Announcements outside the CA's resources or outside the requested scope carry no obligation (the property does not speak about them). The seen-by threshold of the RISwhois parser is always exceeded. Replay: kcheck C17 --replay <file>.")

CHECKS["C12"] = dict(
    engine="E4", category="model_checking", design="4/C12",
    technique="bounded-exhaustive enumeration of harness-signed CMS requests (signing key x claimed sender x recipient x addressed CA x request kind; sender substitution inside signed content; RFC 8181 key x publisher URL x kind) on forked copies of five states of the real CA and publication server, plus every single-bit corruption of valid messages sent to CaManager::rfc6492 / RepositoryManager::rfc8181",
    text="Every request of the matrix (4 identity keys: alice's, bobby's, alice's replacement, an unregistered one; senders alice/bobby/unknown; recipients; addressed CA with and without children; list, issue, issue with a limit in the sibling's space, revoke own key, revoke the sibling's key; publication list/publish/update/withdraw inside and outside the own base URI) in states fresh / issued / alice's identity replaced / parent's identity rolled / alice suspended (where a properly signed request re-activates her, and nothing else may): answered only when signed by the key registered for the claimed sender (the replaced key is refused, the new one accepted); refused => the complete canonical state and the published content are unchanged; answered => reply validates under the server side's current identity key, is addressed to the sender, lists/issues only within the sender's entitlement, never changes the sibling's certificate or objects outside the sender's base URI. Every single-bit corruption of valid list/issue/revoke/publication messages is refused without stored-state change, or decodes to the identical content.",
    note="CMS signing time is 'now' on the frozen clock (expiry not varied). A wrong recipient handle in an otherwise valid message is not a refusal condition of the property. Properly signed requests refused on semantic grounds may leave a failure record in the status store (C19 demands it). Replay: kcheck C12 --replay <file>.")

CHECKS["C16"] = dict(
    engine="E4", category="model_checking", design="4/C16",
    technique="bounded-exhaustive structured mutation of valid inputs (every truncation, single-byte substitution/deletion/duplication, every XML attribute/element and JSON leaf x hostile-value menu, every path parameter x segment menu, every other route's body cross-wired, all byte strings up to length 1/2) sent to the real entry points: CaManager::rfc6492 / RepositoryManager::rfc8181 (raw CMS and validly signed hostile content) and the daemon's own HTTP service (authentication, path parsing, body limits, JSON decoding, dispatch, thread pool) over an in-memory connection",
    text="Every listed mutation of 5 valid provisioning/publication CMS messages, of their XML content re-signed with the registered identity key, of the valid JSON body of each of the body-reading API routes, and of every path parameter of all routes of the route table: no panic on any thread (panic hook), no process death, no hang; an error outcome (refusal / 4xx / 5xx) leaves the stored state unchanged apart from the audit record of a rejected command; after every accepted request that changed something the fixture is put back (revoked key re-issued, updated object restored, API fixture restored from a pristine copy), so that every case meets the same state; afterwards the daemon still answers, every entity reloads and (protocol part) the repository is still relying-party valid.",
    note="'Every byte string' is not enumerable: the input space is the stated mutation neighbourhood of valid messages plus all strings of length <=1 (quick) / <=2 (thorough). The harness profile mirrors the release profile (overflow checks off, debug assertions off) but unwinds instead of aborting so that the sweep can continue after a panic. TLS/socket layers are not exercised. Two panics inside the rpki dependency are recorded as known findings (not fixable in this repository).")

CHECKS["C13"] = dict(
    engine="E4", category="model_checking", design="4/C13",
    technique="exhaustive enumeration of (route x caller x addressed CA x testbed mode) against the daemon's real HTTP service (authentication provider chain, dispatch, permission gates) over an in-memory connection, compared with a reference evaluation of the route table and the role semantics; the route table is checked against the dispatch sources at run time",
    text="Every route of the table (all methods the dispatch code serves) x every caller - anonymous, wrong token, admin token, unmapped system user, and a system user mapped to each of ~140 (quick) / ~650 (thorough) roles: full, none, login only, and for every permission P: all-but-P, only-P, login+P, login+ca-read+P, login+pub-admin+P, unscoped and scoped to a CA; thorough adds scoping to the other CA, to both CAs, to a list naming an unknown CA, and every pair of permissions on top of login, blanket and scoped - x addressed CA (the scoped one / another one): served exactly when the reference grants login (versioned API), the sub-tree gate and the operation's permission for that CA; refused requests (sent with a valid body) leave the stored state byte-for-byte unchanged; without credentials only the open endpoints are served; testbed self-service is served only in testbed mode; the CA list and the bulk issues list show a caller exactly the CAs it may read.",
    note="Roles with both a blanket and per-CA grants that differ (Role::complex) cannot be expressed in the configuration and are not enumerated. OpenID Connect and config-file users are C20's subject; here role-bearing callers use the Unix-socket provider (peer user set as the socket listener does). Served = any status other than 401/403.")

CHECKS["C20"] = dict(
    engine="E4", category="model_checking", design="4/C20",
    technique="exhaustive enumeration of credentials against the daemon's real provider chain (admin token, config-file users with scrypt password hashes and AEAD session tokens, Unix-socket peer users) over an in-memory HTTP connection: login name variants x password variants, token mutations, admin-token variants, peer-user name variants, with a reference that knows the configured users",
    text="Every (name variant x password variant) login for 7 configured users (among them two whose names coincide after NFKC normalisation, one with a role that forbids login, one with a capitalised name, one with a composed accent) and unknown names: succeeds exactly for a configured name with the matching password and a role permitting login, as that user with that role; the issued token has exactly that role's rights on three probes. Every truncation, single-bit flip, single-character substitution and a menu of re-encodings of two valid session tokens, every splice of the two (head of one, tail of the other, at every character and byte position), admin-token variants, a token issued by a second instance (and this instance's token there): refused on every probe over both transports. Peer users: only the mapped names, verbatim. Audit records of accepted commands name the authenticated identity.",
    note="OpenID Connect needs an external provider and is not exercised. The session key and nonces are random per instance; the verdicts do not depend on their values (a mutation that equals the genuine token is skipped). Passwords are compared after the trimming/NFKC normalisation which the hash generator itself applies.")

CHECKS["C15"] = dict(
    engine="E1", category="model_checking", design="4/C15",
    technique="explicit-state exploration (fork-checkpointed DFS) of trust-anchor proxy/signer exchanges on the real aggregates, with the harness carrying the messages: genuine, replayed, stale, re-ordered, cross-wired and modified requests and responses, two children requesting concurrently, a key roll of a child and a re-initialisation of the signer in between",
    text="Every sequence (up to the completed depth) of: child c1/c2 synchronising with the TA, the proxy opening a signer request, the signer processing the latest or the previous pooled request (genuine, clear text altered, nonce altered, signed part swapped with the other pooled request or with a message signed by the signer's own key), the proxy being handed the latest or previous pooled response (genuine, nonce rewritten to the open one, child responses dropped, revision number lowered, signed part swapped with the other pooled response or with a message signed by the proxy's key), a key roll of c1, a re-initialisation of the signer (same TA key, new identity) followed by the proxy's signer update: a request is opened only when none is open; the signer processes only unaltered requests signed by the proxy; the proxy accepts only the unaltered response carrying the open nonce and signed by the signer it is currently associated with (responses of the retired signer are refused); refused messages leave proxy/signer unchanged; no key has an open request and an open response at once and a fetched response leaves the proxy; a response waiting for a child stays in the proxy until that child asks; in a second configuration the harness itself plays a child of the TA with two keys (local request path, hook H7) and a reference life cycle per key (nothing outstanding / request open / response waiting) is compared with what the child is told at every request: a forwarded request is answered exactly once and the answer is handed over exactly once, also when answers to two requests arrive in separate exchanges; TA manifest numbers in proxy, signer and repository never decrease and a changed manifest has a higher number; the tree stays relying-party valid.",
    note=E1_NOTE + " The scheduler is not run in this model (it would perform the whole exchange itself); hook H7 exposes the signer half of sync_ta_proxy_signer_if_possible. Signer re-initialisation uses hook H7 (drop + init with the same key + update of the proxy).")

CHECKS["C08"] = dict(
    engine="E3", category="model_checking", design="4/C08",
    technique="exhaustive fault enumeration: for every scenario (state, operation) the sequence of key-value and file-system mutations performed by the operation and by the background tasks it triggers is recorded on the real code (fault points, hook H3); then every prefix is cut, once as a process crash before the n-th mutation and once as that mutation failing with an I/O error, and the survivor (a fresh instance on the surviving data directory / the still-running instance) is checked and compared with a fault-free twin run",
    text="Scenarios: ROA added (warm caches; cold caches right after a restart; right after another command without any read in between), ROA removed, ASPA set, router key added, child entitlement shrunk, entitlement grown on cold caches, key roll initiated, key roll activated, key roll initiated under a rolling parent, re-publication a day later, identity key renewed (quick: the first six). For every mutation index and both cut kinds: every entity loads; the repository files are consistent; on a copy, once background work and its retries (an hour later) have run and before any new request, RRDP files, rsync tree and repository content agree; an acknowledged command is not lost; the running instance holds in memory exactly what a fresh instance replays from storage; after background tasks, re-submission of the interrupted request and settling the tree is relying-party valid and the observable state equals that of the fault-free run.",
    note="Torn writes inside one mutation are not modelled (values are written to a temporary file and renamed). Equality with the twin is on an observable projection (configuration, entitlements, key-state kinds, relying-party payloads); fresh keys, serials and class names are not compared. When the daemon gives up on purpose (task queue cannot be written) the Fail-mode cut is continued as a restart. Two defects found here are recorded as known findings (listener/command store not atomic; RRDP update task not queued), one was repaired.")

CHECKS["C07"] = dict(
    engine="E2", category="model_checking", design="4/C07",
    technique="stateless exploration of thread interleavings of the real runtime under a controlled scheduler (engine E2): worker threads park at every lock hand-off krill reports (hook H2, both storage back-ends); depth-first search over the choice points with a preemption bound, every schedule re-executed from the same initial state in its own process; plus probes that resume a thread whose lock is reported held, so that the real file / rwlocks are exercised",
    text="Harnesses: two writers racing to add the same ROA plus a reader; accepted, rejected and effect-less commands mixed plus a reader; commands on a CA and on its parent; a writer and three overlapping callers of the command-history API with krill's history cache on (every listing is the recorded order, each command once); disk and memory back-end. For every schedule with at most 1 (quick) / 2 (thorough) preemptions: every recorded command has the next consecutive version; the command files equal what the history API lists (with actor); acknowledged commands = recorded successes, rejected = recorded with the error, commands without effect leave no trace; of two racing identical changes exactly one wins; every read equals the state after a prefix of the recorded order and versions never go back; the final state is the replay of the recorded commands; a fresh instance loads the same state; no deadlock.",
    note="Scheduling points are the reported lock hand-offs only; a command's whole load-process-store-cache sequence runs inside one such lock. Unreported std locks are handled by a 400 ms watchdog (a thread that reaches no point is treated as blocked), which makes the probe executions timing-dependent; the trusted explorations are deterministic (a replayed prefix that does not fit is a machinery error). Replay: kcheck C07 --replay <file>.")

CHECKS["C18"] = dict(
    engine="E2", category="model_checking", design="4/C18",
    technique="stateless exploration of thread interleavings of the real runtime under a controlled scheduler (engine E2, scheduling points at the lock hand-offs reported through hook H2, preemption-bounded depth-first search, every schedule re-executed from the same initial state in its own process): operation threads plus a thread running the daemon's scheduler loop body, compared with all serial orders of the same operations",
    text="Variants: two changes on one CA (ROA, ASPA); parent-side entitlement change with the child's synchronisation; changes on a CA and on its parent; a ROA change with an API-requested repository synchronisation; a ROA change with an RRDP update; a ROA change with a forced re-publication of all CAs; two clients that each change the CA and then ask for its repository synchronisation (so that a publication can arrive while the RRDP update task runs) - each together with the scheduler thread processing the tasks these produce; disk back-end (memory back-end for parent-child, thorough also same-ca). For every schedule with at most 1 (quick) / 2 (thorough) preemptions: all threads complete (no deadlock, detected as 'nobody can be resumed and nobody progresses'), no call fails (none fails in any serial order), the scheduler reports nothing fatal, and after background work has caught up (including one hour of retries) the observable state equals that of a serial order and the tree is relying-party valid.",
    note="Scheduling points are reported lock hand-offs only; unreported std locks are resolved by a 400 ms watchdog, which can make a prefix not exactly replayable (counted in coverage, judged but not expanded). One call per operation thread. Replay: kcheck C18 --replay <file>.")

CHECKS["C10"] = dict(
    engine="E1", category="model_checking", design="4/C10",
    technique="explicit-state exploration (fork-checkpointed DFS) of publication-delta sequences from several publishers on the real RepositoryManager against a per-publisher reference map",
    text="Every sequence (up to the completed depth) of deltas from publishers alice / alice2 (look-alike handle) / bob (single- and two-element deltas: publish, update and withdraw with right and wrong hashes, foreign base URIs, upper-case scheme/host, dot segments, the bare base URI) interleaved with RRDP updates and publisher removal / re-adding: a delta is accepted exactly when the reference (current + staged content, jail) says so and then applied as a whole, otherwise nothing changes; every publisher's list reply equals the reference after every step; no publisher's content is touched by another's request; removal withdraws exactly that publisher's objects.",
    note=E1_NOTE + " Requests enter at RepositoryManager::rfc8181_message (after CMS validation, which is C12's subject). The state fingerprint includes krill's own (reloaded) view of snapshot, deltas and staged element kinds.")
CHECKS["C11"] = dict(
    engine="E1+E3", category="model_checking", design="4/C11",
    technique="explicit-state exploration (fork-checkpointed DFS) of publication histories with a simulated RRDP client that remembers every serial it has seen, under several retention configurations; plus enumeration of every file-system cut point of a repository write (fault points) with recovery by the next write",
    text="Every publication history (up to the completed depth; publish, update, a second update of the same object, withdraw, two-element deltas) with RRDP updates, session resets and clock steps under retention configurations (tight 1/2, dense young-delta, min=max, thorough: test, default+archive, dense archive): after every step the notification parses and names an existing snapshot and deltas with the stated hashes, the snapshot equals the publication state at its serial, serials step by one, the session changes only on reset (serial 1, no deltas), deltas form a contiguous run ending at the serial and respect the documented maximum, a client at any remembered serial reaches the snapshot through the advertised chain, and rsync/current equals the snapshot. Fault part: every cut (crash and single failing write) of the file-system mutation sequence of an update or session reset; then first a plain retry of the same write with nothing new to publish (it must succeed and leave RRDP files, rsync tree and - for an update - the server's content in agreement), then a withdrawal, two publications and a withdrawal with session reset, each with a successful write and a consistent result.",
    note=E1_NOTE + " The delta cap follows the documented precedence (min_nr previous deltas plus the new one and all deltas younger than min_seconds are always kept). Cuts are process deaths between mutations, not torn sectors.")

NOT_YET = {
}

def main():
    checks = []
    for pid, c in sorted(CHECKS.items()):
        checks.append({
            "property_id": pid,
            "quick_cmd": f"bin/check {pid} quick",
            "thorough_cmd": f"bin/check {pid} thorough",
            "evidence_file": f"/verif/evidence/{pid}.json",
            "replay_cmd_template": f"bin/check {pid} quick --replay {{path}}",
            "engine": c["engine"],
            "level_claimed": {"category": c["category"], "text": c["text"], "design_ref": c["design"]},
            "level_note": c["note"],
            "technique": c["technique"],
        })
    props = [json.loads(l)["id"] for l in open("/verif/properties.jsonl")]
    na = []
    for pid in props:
        if pid not in CHECKS:
            na.append({"property_id": pid, "reason": NOT_YET.get(pid, "check not built yet in this round (planned, see DESIGN.md section 4); not claimed")})
    m = {
      "version": 1,
      "setup_cmd": "cd /verif/harness && CARGO_NET_OFFLINE=true cargo build --release --offline",
      "hooks": {
        "guard": "cargo feature verif-hooks (off by default)",
        "enable": "the harness crate /verif/harness depends on krill = { path = \"/repo\", features = [\"verif-hooks\"] }",
        "baseline_off_cmd": "cd /repo && cargo test --workspace --no-fail-fast --offline",
        "source_commits": [l.split()[0] for l in HOOK_COMMITS],
        "add_only": True,
      },
      "engines": [
        {"name": "E1", "path": "harness/src/e1.rs", "serves_properties": sorted(p for p,c in CHECKS.items() if c["engine"].startswith("E1")), "kind_free_text": "fork()-checkpointed explicit-state DFS over operation sequences on the real KrillRuntime, shared-memory seen-set, iterative deepening"},
        {"name": "E2", "path": "harness/src/e2.rs", "serves_properties": sorted(p for p,c in CHECKS.items() if "E2" in c["engine"]), "kind_free_text": "CHESS-style controlled scheduler over cfg-gated lock hand-off points, preemption-bounded DFS"},
        {"name": "E3", "path": "harness/src/e3.rs", "serves_properties": sorted(p for p,c in CHECKS.items() if "E3" in c["engine"]), "kind_free_text": "n-th mutation crash / failing-write enumeration via fault points"},
        {"name": "E4", "path": "harness/src/checks", "serves_properties": sorted(p for p,c in CHECKS.items() if "E4" in c["engine"]), "kind_free_text": "bounded-exhaustive input enumeration against reference models"},
      ],
      "checks": checks,
      "notes": "All checks are one binary (kcheck) built by setup_cmd; bin/check rebuilds it incrementally from /repo's working tree before every run. Exit 2 = machinery fault, never a verdict.",
      "not_applicable": na,
    }
    json.dump(m, open("/verif/MANIFEST.json", "w"), indent=1)
    print("checks:", len(checks), "not claimed:", len(na))

if __name__ == "__main__":
    main()
