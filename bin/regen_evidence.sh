#!/bin/bash
# Regenerates /verif/evidence/*.json with the quick tier of every check, the
# harness pinned to two cores: the machine that re-runs the quick tiers from a
# fresh restore has about a tenth of this sandbox's parallel throughput, and
# time-capped explorations complete less there; evidence produced at full
# speed would describe more work than such a run reproduces.
cd /verif || exit 2
cores=${REGEN_CORES:-14,15}
for c in ${@:-C01 C02 C03 C04 C05 C06 C07 C08 C09 C10 C11 C12 C13 C14 C15 C16 C17 C18 C19 C20}; do
  s=$(date +%s)
  taskset -c $cores bin/check $c quick > /tmp/regen-$c.log 2>&1
  echo "$c exit=$? wall=$(( $(date +%s)-s ))s $(grep -E '^(VIOLATION|MACHINERY)' /tmp/regen-$c.log | head -2 | cut -c1-150)"
done
