#!/bin/bash
# try_seed.sh <seed-id> <check> [<check>...] — apply /verif/seeded/<seed-id>/patch.diff
# to /repo, run the quick tier of the named checks with evidence redirected to
# a scratch directory, print their verdict lines, and restore /repo.
set -u
seed=$1; shift
patch=/verif/seeded/$seed/patch.diff
[ -f "$patch" ] || { echo "no such seed $seed"; exit 2; }
if ! git -C /repo diff --quiet; then echo "/repo has uncommitted changes"; exit 2; fi
out=$(mktemp -d /tmp/seedtry-XXXX)
git -C /repo apply "$patch" || { echo "patch does not apply"; exit 2; }
trap 'git -C /repo checkout -- .; rm -rf "$out"' EXIT
mkdir -p "$out/evidence" "$out/replays"
for c in "$@"; do
  tier=quick
  case $c in *:thorough) tier=thorough; c=${c%%:*};; esac
  VERIF_OUT_DIR=$out /verif/bin/check "$c" $tier > "$out/$c.log" 2>&1
  rc=$?
  echo "== seed $seed check $c $tier exit=$rc"
  grep -E "^(VIOLATION|KNOWN-FINDING|OK|  ->)" "$out/$c.log" | cut -c1-400 | head -6
done
