#!/bin/bash
# try_seed_snap.sh <seed-id> <check>[:thorough] ... — like try_seed.sh, but the
# harness is built from a snapshot of the committed /verif (git worktree
# /tmp/verif-try, own target directory), so that /verif/harness can be edited
# while seeded changes are being tried, and krill from a scratch worktree of
# /repo's HEAD (/tmp/repo-try), where the seeded change is applied - /repo
# itself is not touched. One run at a time (shared snapshot and target).
# (C13's route-table guard still reads the dispatch sources under /repo.)
# Refresh the snapshot with:  bin/try_seed_snap.sh --refresh
set -u
SNAP=/tmp/verif-try
TGT=/tmp/verif-try-target
RT=/tmp/repo-try
if [ "${1:-}" = "--refresh" ]; then
  if [ -d $SNAP ]; then git -C $SNAP checkout -q -- . ; git -C $SNAP checkout -q --detach "$(git -C /verif rev-parse HEAD)"; else git -C /verif worktree add -q --detach $SNAP HEAD; fi
  [ -d $TGT ] || cp -a /verif/harness/target $TGT
  if [ -d $RT ]; then git -C $RT checkout -q -- . ; git -C $RT checkout -q --detach "$(git -C /repo rev-parse HEAD)"; else git -C /repo worktree add -q --detach $RT HEAD; fi
  sed -i 's#path = "/repo"#path = "/tmp/repo-try"#' $SNAP/harness/Cargo.toml
  git -C $SNAP log --oneline | head -1
  exit 0
fi
seed=$1; shift
patch=/verif/seeded/$seed/patch.diff
[ -f "$patch" ] || { echo "no such seed $seed"; exit 2; }
[ -d $SNAP ] || { echo "no snapshot; run --refresh"; exit 2; }
git -C $RT checkout -q -- .
out=$(mktemp -d /tmp/seedtry-XXXX)
git -C $RT apply "$patch" || { echo "patch does not apply"; exit 2; }
trap 'git -C $RT checkout -q -- .; rm -rf "$out"' EXIT
mkdir -p "$out/evidence" "$out/replays"
export CARGO_NET_OFFLINE=true CARGO_TARGET_DIR=$TGT
if ! (cd $SNAP/harness && cargo build --release --offline -q 2>"$out/build.log"); then
  echo "== seed $seed: harness build failed"; tail -20 "$out/build.log"; exit 2
fi
for c in "$@"; do
  tier=quick
  case $c in *:thorough) tier=thorough; c=${c%%:*};; esac
  (cd $SNAP/harness && ulimit -c 0 && VERIF_OUT_DIR=$out $TGT/release/kcheck "$c" --tier $tier) > "$out/$c.log" 2>&1
  rc=$?
  echo "== seed $seed check $c $tier exit=$rc"
  grep -E "^(VIOLATION|KNOWN-FINDING|OK|MACHINERY|  ->)" "$out/$c.log" | cut -c1-400 | head -6
done
