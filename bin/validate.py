#!/usr/bin/env python3
"""Validate MANIFEST.json and evidence/*.json against the schemas."""
import json, sys, glob
import jsonschema
ok = True
m = json.load(open('/verif/MANIFEST.json'))
try:
    jsonschema.validate(m, json.load(open('/root/.vp/MANIFEST.schema.json')))
    print('MANIFEST ok: %d checks' % len(m['checks']))
except Exception as e:
    ok = False; print('MANIFEST INVALID', e)
s = json.load(open('/root/.vp/EVIDENCE.schema.json'))
for f in sorted(glob.glob('/verif/evidence/*.json')):
    try:
        e = json.load(open(f)); jsonschema.validate(e, s)
        c = e['coverage']
        print(f.split('/')[-1], 'ok', e['tier'], e['level'], {k: c[k] for k in ('states','transitions','evaluations','distinct_nontrivial','exhaustive') if k in c}, 'viol', e.get('violations'), 'wall', round(e['wall_s'],1))
    except Exception as ex:
        ok = False; print(f, 'INVALID', str(ex)[:300])
sys.exit(0 if ok else 1)
