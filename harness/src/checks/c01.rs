//! C01 — Published tree is RP-valid and says exactly what was configured.

use std::collections::{BTreeMap, BTreeSet};
use std::sync::atomic::Ordering;

use rpki::repository::resources::ResourceSet;

use crate::e1::{Header, Model};
use crate::e1run::{self, Config, Spec};
use crate::ops::{Op, OpOutcome, r3, router_csr};
use crate::report::{Outcome, Tier};
use crate::rp::{self, RpResult, Vrp};
use crate::world::{self, World, WorldCfg, res};

/// Reference model of configured intent (updated on accepted ops only).
#[derive(Clone, Debug, Default)]
pub struct Intent {
    pub roas: BTreeMap<String, BTreeSet<String>>,
    pub aspas: BTreeMap<String, BTreeMap<u32, Vec<u32>>>,
    pub bgpsec: BTreeMap<String, BTreeSet<(u32, usize)>>,
}

impl Intent {
    pub fn update(&mut self, op: &Op, out: &OpOutcome) {
        if !out.ok {
            return;
        }
        match op {
            Op::Roa { ca, add, del } => {
                let set = self.roas.entry(ca.clone()).or_default();
                for d in del {
                    set.remove(&canon_payload(d));
                }
                for a in add {
                    set.insert(canon_payload(a));
                }
            }
            Op::AspaSet { ca, customer, providers } => {
                let mut p = providers.clone();
                p.sort();
                self.aspas.entry(ca.clone()).or_default().insert(*customer, p);
            }
            Op::AspaDel { ca, customer } => {
                self.aspas.entry(ca.clone()).or_default().remove(customer);
            }
            Op::AspaSwap { ca, remove, customer, providers } => {
                let defs = self.aspas.entry(ca.clone()).or_default();
                defs.remove(remove);
                let mut p = providers.clone();
                p.sort();
                defs.insert(*customer, p);
            }
            Op::AspaProviders { ca, customer, add, del } => {
                // (an accepted update for a customer without definition
                // creates the definition from the added providers)
                let defs = self.aspas.entry(ca.clone()).or_default();
                let p = defs.entry(*customer).or_default();
                p.retain(|x| !del.contains(x));
                for a in add {
                    if !p.contains(a) {
                        p.push(*a);
                    }
                }
                p.sort();
                if p.is_empty() {
                    defs.remove(customer);
                }
            }
            Op::BgpsecAdd { ca, asn, csr } => {
                self.bgpsec.entry(ca.clone()).or_default().insert((*asn, *csr));
            }
            Op::BgpsecDel { ca, asn, csr } => {
                self.bgpsec.entry(ca.clone()).or_default().remove(&(*asn, *csr));
            }
            Op::DeleteCa { ca } => {
                self.roas.remove(ca);
                self.aspas.remove(ca);
                self.bgpsec.remove(ca);
            }
            _ => {}
        }
    }
}

/// "10.0.0.0/24 => 65000" -> (prefix, explicit maxlen, asn) as a string key
pub fn canon_payload(s: &str) -> String {
    let (pfx, asn) = s.split_once("=>").expect("payload");
    let pfx = pfx.trim();
    let asn = asn.trim().trim_start_matches("AS");
    let (prefix, maxlen) = match pfx.split_once('-') {
        Some((p, m)) => (p.to_string(), m.parse::<u8>().unwrap()),
        None => {
            let len: u8 = pfx.split_once('/').unwrap().1.parse().unwrap();
            (pfx.to_string(), len)
        }
    };
    format!("{prefix}-{maxlen} => {asn}")
}

fn payload_parts(canon: &str) -> (String, u8, u32) {
    let (pfx, asn) = canon.split_once(" => ").unwrap();
    let (prefix, maxlen) = pfx.split_once('-').unwrap();
    (prefix.to_string(), maxlen.parse().unwrap(), asn.parse().unwrap())
}

fn prefix_set(prefix: &str) -> ResourceSet {
    if prefix.contains(':') {
        ResourceSet::from_strs("", "", prefix).unwrap()
    } else {
        ResourceSet::from_strs("", prefix, "").unwrap()
    }
}

/// The resources certified to each CA (union over its accepted certificates),
/// keyed by CA name derived from the publication point directory.
pub fn ca_resources(r: &RpResult) -> BTreeMap<String, ResourceSet> {
    let mut m: BTreeMap<String, ResourceSet> = BTreeMap::new();
    for p in &r.cas {
        let name = p
            .repo_dir
            .strip_prefix("rsync://localhost/repo/")
            .and_then(|s| s.split('/').next())
            .unwrap_or("")
            .to_string();
        let name = if name.is_empty() { "ta".to_string() } else { name };
        let e = m.entry(name).or_default();
        *e = e.union(&p.res);
    }
    m
}

/// Compares validated payloads with intent ∩ coverage. Returns problems.
pub fn compare_payloads(r: &RpResult, intent: &Intent) -> Vec<String> {
    let cares = ca_resources(r);
    let mut problems = Vec::new();
    let mut exp_vrps: BTreeSet<Vrp> = BTreeSet::new();
    for (ca, set) in &intent.roas {
        let Some(resources) = cares.get(ca) else { continue };
        for c in set {
            let (prefix, max_len, asn) = payload_parts(c);
            if resources.contains(&prefix_set(&prefix)) {
                exp_vrps.insert(Vrp { prefix, max_len, asn });
            }
        }
    }
    for v in exp_vrps.difference(&r.vrps) {
        problems.push(format!("VRP missing: {}-{} => {}", v.prefix, v.max_len, v.asn));
    }
    for v in r.vrps.difference(&exp_vrps) {
        problems.push(format!("VRP extra: {}-{} => {}", v.prefix, v.max_len, v.asn));
    }
    let mut exp_aspas: BTreeSet<(u32, Vec<u32>)> = BTreeSet::new();
    for (ca, m) in &intent.aspas {
        let Some(resources) = cares.get(ca) else { continue };
        for (cust, provs) in m {
            let asr = ResourceSet::from_strs(&format!("AS{cust}"), "", "").unwrap();
            if resources.contains(&asr) {
                exp_aspas.insert((*cust, provs.clone()));
            }
        }
    }
    for a in exp_aspas.difference(&r.aspas) {
        problems.push(format!("ASPA missing: {a:?}"));
    }
    for a in r.aspas.difference(&exp_aspas) {
        problems.push(format!("ASPA extra: {a:?}"));
    }
    let mut exp_rk: BTreeSet<(u32, String)> = BTreeSet::new();
    for (ca, set) in &intent.bgpsec {
        let Some(resources) = cares.get(ca) else { continue };
        for (a, csr) in set {
            let asr = ResourceSet::from_strs(&format!("AS{a}"), "", "").unwrap();
            if resources.contains(&asr) {
                let ki = router_csr(*csr).public_key().key_identifier();
                exp_rk.insert((*a, hex::encode(ki.as_slice())));
            }
        }
    }
    for a in exp_rk.difference(&r.router_keys) {
        problems.push(format!("router key missing: {a:?}"));
    }
    for a in r.router_keys.difference(&exp_rk) {
        problems.push(format!("router key extra: {a:?}"));
    }
    problems
}

/// "the objects the API reports for a configuration are the ones in the
/// repository": every ROA object named by configured_roas() is present with
/// the same content, and every .roa file of the CA is named by some config.
pub fn compare_api_objects(w: &World, view: &rp::RepoView) -> Vec<String> {
    let mut problems = Vec::new();
    let cm = w.krill.ca_manager();
    for handle in cm.ca_handles().unwrap_or_default() {
        let Ok(ca) = cm.get_ca(&handle) else { continue };
        let mut reported: BTreeSet<String> = BTreeSet::new();
        for cr in ca.configured_roas() {
            for obj in &cr.roa_objects {
                let uri = obj.uri.to_string();
                match view.get(&uri) {
                    None => problems.push(format!(
                        "API reports ROA object {uri} for {} but it is not in the repository",
                        cr.roa_configuration.payload
                    )),
                    Some(bytes) => {
                        if bytes != &obj.base64.to_bytes() {
                            problems.push(format!(
                                "API ROA object {uri} differs from repository content"
                            ));
                        }
                    }
                }
                reported.insert(uri);
            }
        }
        let prefix = format!("rsync://localhost/repo/{handle}/");
        for uri in view.keys() {
            if uri.starts_with(&prefix) && uri.ends_with(".roa") && !reported.contains(uri) {
                problems.push(format!(
                    "repository has {uri} which the API reports for no configuration"
                ));
            }
        }
    }
    problems
}

#[derive(Clone)]
pub struct C01Model {
    pub intent: Intent,
    pub full_alphabet: bool,
    pub two_parents: bool,
}

pub const ROA_A: &str = "10.0.0.0/24 => 65000";
pub const ROA_B: &str = "10.0.1.0/24-25 => 65000";
pub const ROA_C: &str = "10.1.0.0/16 => 65000";
pub const ROA_D: &str = "2001:db8::/48 => 65000";
pub const ROA_E: &str = "10.0.0.0/24 => 65001";

pub fn full_ca_res() -> crate::ops::Res3 {
    r3("AS65000-AS65005", "10.0.0.0/15", "2001:db8::/48")
}

impl Model for C01Model {
    fn alphabet(&mut self, w: &World, _depth: usize, _path: &[Op]) -> Vec<Op> {
        let c = || "ca".to_string();
        let p = || "parent".to_string();
        let mut ops = vec![
            Op::Roa { ca: c(), add: vec![ROA_A.into()], del: vec![] },
            Op::Roa { ca: c(), add: vec![ROA_B.into()], del: vec![] },
            Op::Roa { ca: c(), add: vec![ROA_C.into(), ROA_D.into()], del: vec![] },
            Op::Roa { ca: c(), add: vec![], del: vec![ROA_A.into()] },
            Op::Roa { ca: c(), add: vec![], del: vec![ROA_C.into(), ROA_D.into()] },
            // one delta that swaps an authorisation (set size unchanged)
            Op::Roa { ca: c(), add: vec![ROA_B.into()], del: vec![ROA_A.into()] },
            // one delta that removes an authorisation and adds enough to cross
            // the aggregation threshold, and the reverse
            Op::Roa { ca: c(), add: vec![ROA_B.into(), ROA_C.into(), ROA_D.into()], del: vec![ROA_A.into()] },
            Op::Roa { ca: c(), add: vec![ROA_A.into()], del: vec![ROA_B.into(), ROA_C.into(), ROA_D.into()] },
            Op::AspaSet { ca: c(), customer: 65000, providers: vec![65001] },
            // one update that removes one customer's definition and adds
            // another's
            Op::AspaSwap { ca: c(), remove: 65000, customer: 65001, providers: vec![65002] },
            // all authorisations of an aggregating class removed at once
            Op::Roa { ca: c(), add: vec![], del: vec![ROA_B.into(), ROA_C.into(), ROA_D.into()] },
            // a providers-only update of an existing definition (add only,
            // remove only)
            Op::AspaProviders { ca: c(), customer: 65000, add: vec![65002], del: vec![] },
            Op::AspaProviders { ca: c(), customer: 65000, add: vec![], del: vec![65002] },
            Op::BgpsecAdd { ca: c(), asn: 65000, csr: 0 },
            Op::Entitle { parent: p(), child: c(), res: r3("AS65000", "10.0.0.0/16", "") },
            Op::Entitle { parent: p(), child: c(), res: r3("", "10.1.0.0/16", "2001:db8::/48") },
            Op::Entitle { parent: p(), child: c(), res: full_ca_res() },
            Op::RollInit { ca: c() },
            Op::RollActivate { ca: c() },
            Op::Republish { force: true },
        ];
        if self.full_alphabet {
            ops.extend([
                Op::Roa { ca: c(), add: vec![ROA_E.into()], del: vec![] },
                Op::Roa { ca: c(), add: vec![], del: vec![ROA_B.into()] },
                Op::AspaSet { ca: c(), customer: 65000, providers: vec![65001, 65002] },
                Op::AspaDel { ca: c(), customer: 65000 },
                Op::BgpsecDel { ca: c(), asn: 65000, csr: 0 },
                Op::Suspend { parent: p(), child: c() },
                Op::Unsuspend { parent: p(), child: c() },
                Op::RemoveChild { parent: p(), child: c() },
                Op::LinkChild { parent: p(), child: c(), res: full_ca_res() },
                Op::Entitle { parent: c(), child: "gc".into(), res: r3("AS65001", "10.0.0.0/24", "") },
                Op::Entitle { parent: c(), child: "gc".into(), res: r3("", "10.1.0.0/24", "") },
                Op::Republish { force: false },
                Op::Renew,
                Op::Restart,
            ]);
            if self.two_parents {
                ops.push(Op::RemoveParent { ca: c(), parent: "parent2".into() });
                ops.push(Op::LinkChild {
                    parent: "parent2".into(),
                    child: c(),
                    res: r3("AS65000", "10.0.0.0/16", ""),
                });
            }
        }
        if !w.cfg.disk {
            ops.retain(|o| !matches!(o, Op::Restart));
        }
        ops
    }

    fn check(
        &mut self, w: &mut World, path: &[Op], out: &OpOutcome, hdr: &Header,
    ) -> Vec<(String, String)> {
        let op = path.last().unwrap();
        self.intent.update(op, out);
        if let Some(f) = &out.fatal {
            return vec![("fatal".to_string(), f.clone())];
        }
        // (1) triggered tasks done - safety: everything reachable must
        // validate and no payload may be extra; files and payloads of CAs that
        // did not have their periodic refresh yet may lag behind.
        let mut v = self.check_state(w, hdr, true);
        if !v.is_empty() {
            return v;
        }
        // (2) after the recurring refresh had its turn: strict.
        if let Err(f) = w.settle() {
            return vec![("fatal".to_string(), f)];
        }
        v = self.check_state(w, hdr, false);
        v
    }
}

impl C01Model {
    fn check_state(
        &mut self, w: &mut World, hdr: &Header, lenient_orphans: bool,
    ) -> Vec<(String, String)> {
        let mut v = Vec::new();
        // "background work has caught up": pump returned with nothing due
        hdr.counters[0].fetch_add(1, Ordering::Relaxed);
        let lists = match rp::view_from_lists(w) {
            Ok(x) => x,
            Err(e) => return vec![("view".into(), e)],
        };
        let (rrdp, _n) = match rp::view_from_rrdp(w) {
            Ok(x) => x,
            Err(e) => return vec![("rrdp-view".into(), e)],
        };
        if lists != rrdp {
            let only_l: Vec<_> = lists.keys().filter(|k| !rrdp.contains_key(*k)).collect();
            let only_r: Vec<_> = rrdp.keys().filter(|k| !lists.contains_key(*k)).collect();
            v.push((
                "views-differ".into(),
                format!("publisher lists vs RRDP snapshot: only in lists {only_l:?}, only in rrdp {only_r:?}"),
            ));
        }
        let r = rp::validate(w, &rrdp);
        for (uri, why) in &r.rejections {
            v.push(("rp-reject".into(), format!("{why} [{}]", short_uri(uri))));
        }
        let reachable_dirs: BTreeSet<&str> =
            r.cas.iter().map(|c| c.repo_dir.as_str()).collect();
        for uri in &r.unreferenced {
            let dir = match uri.rfind('/') {
                Some(i) => &uri[..=i],
                None => uri.as_str(),
            };
            // before the refresh round files may linger (safety only);
            // afterwards only those of CAs that are really cut off
            if lenient_orphans
                || (!reachable_dirs.contains(dir) && orphan_is_legit(w, uri))
            {
                hdr.counters[5].fetch_add(1, Ordering::Relaxed);
                continue;
            }
            v.push(("rp-unlisted".into(), format!("present but unlisted: {}", short_uri(uri))));
        }
        if !r.vrps.is_empty() {
            hdr.counters[1].fetch_add(1, Ordering::Relaxed);
        }
        if !r.aspas.is_empty() {
            hdr.counters[2].fetch_add(1, Ordering::Relaxed);
        }
        if !r.router_keys.is_empty() {
            hdr.counters[3].fetch_add(1, Ordering::Relaxed);
        }
        hdr.counters[4].fetch_add(r.accepted.len() as u64, Ordering::Relaxed);
        for p in compare_payloads(&r, &self.intent) {
            // completeness ("missing") is only required after the refresh
            if lenient_orphans && p.contains("missing") {
                continue;
            }
            v.push(("payload".into(), p));
        }
        for p in compare_api_objects(w, &rrdp) {
            v.push(("api-objects".into(), p));
        }
        v
    }
}

/// A file in a publication point that no accepted certificate refers to is
/// tolerated only if the CA that owns the directory still exists, still has
/// that resource class, and is *cut off*: its parent removed or suspended it,
/// entitles it to nothing, is gone, or is itself cut off. Such a CA cannot
/// know until its parent answers again. Files of deleted CAs, of dropped
/// classes, or of a CA that its parent does entitle are never tolerated.
pub fn orphan_is_legit(w: &World, uri: &str) -> bool {
    let Some(rest) = uri.strip_prefix("rsync://localhost/repo/") else {
        return false;
    };
    let mut parts = rest.split('/');
    let (Some(ca_name), Some(rcn), Some(_file), None) =
        (parts.next(), parts.next(), parts.next(), parts.next())
    else {
        return false;
    };
    rc_cut_off(w, ca_name, Some(rcn), 0)
}

/// Is the given class (or every class) of `ca_name` cut off from the TA?
pub fn rc_cut_off(w: &World, ca_name: &str, rcn: Option<&str>, depth: usize) -> bool {
    if depth > 6 {
        return false;
    }
    let Ok(handle) = std::str::FromStr::from_str(ca_name) else { return false };
    let Ok(ca) = w.krill.ca_manager().get_ca(&handle) else {
        return false;
    };
    let v = serde_json::to_value(ca.as_ref()).unwrap_or_default();
    let Some(rcs) = v.get("resources").and_then(|r| r.as_object()) else {
        return false;
    };
    let selected: Vec<&serde_json::Value> = match rcn {
        Some(n) => match rcs.get(n) {
            Some(rc) => vec![rc],
            // the class does not exist (any more): for the CA asked about
            // that means its objects should be gone; for a parent further up
            // it means that whatever hangs below is cut off
            None => return depth > 0,
        },
        None => rcs.values().collect(),
    };
    if selected.is_empty() {
        return true; // a CA without any class has nothing certified
    }
    selected.iter().all(|rc| {
        let Some(parent) = rc.get("parent_handle").and_then(|p| p.as_str()) else {
            return true;
        };
        if parent == "ta" {
            return false;
        }
        let Ok(ph) = std::str::FromStr::from_str(parent) else { return true };
        let Ok(pca) = w.krill.ca_manager().get_ca(&ph) else {
            return true; // parent CA is gone
        };
        let Ok(ch) = std::str::FromStr::from_str(ca_name) else { return true };
        match pca.get_child(&ch) {
            Err(_) => true, // removed at the parent
            Ok(details) => {
                if details.state.is_suspended() {
                    return true;
                }
                let entitled =
                    details.resources.intersection(&pca.all_resources());
                if entitled.is_empty() {
                    return true;
                }
                // entitled by a parent class that is itself cut off?
                let parent_class = rc
                    .get("parent_rc_name")
                    .and_then(|n| n.as_str())
                    .map(|n| {
                        details
                            .parent_name_for_rcn(
                                &rpki::ca::provisioning::ResourceClassName::from(n),
                            )
                            .to_string()
                    });
                match parent_class {
                    Some(pc) => rc_cut_off(w, parent, Some(&pc), depth + 1),
                    None => rc_cut_off(w, parent, None, depth + 1),
                }
            }
        }
    })
}

/// strip the host part and mask key-derived names for stable signatures
pub fn short_uri(uri: &str) -> String {
    uri.strip_prefix("rsync://localhost/repo/").unwrap_or(uri).to_string()
}

pub fn world_cfg(agg: usize, deagg: usize) -> WorldCfg {
    WorldCfg {
        roa_aggregate_threshold: agg,
        roa_deaggregate_threshold: deagg,
        ..WorldCfg::default()
    }
}

pub fn build_w3(cfg: WorldCfg) -> Result<World, String> {
    let f = full_ca_res();
    World::build_w3(cfg, res(&f.0, &f.1, &f.2), res("AS65001", "10.0.0.0/24", ""))
        .map_err(|e| e.to_string())
}

pub fn build_w3_two_parents(cfg: WorldCfg) -> Result<World, String> {
    let w = build_w3(cfg)?;
    (|| -> world::KResult<()> {
        w.add_ca("parent2")?;
        w.add_child_link(
            "ta",
            "parent2",
            res("AS65000-AS65010", "10.0.0.0/8", ""),
        )?;
        w.sync_parent("parent2", "ta")?;
        w.sync_parent("parent2", "ta")?;
        w.sync_ta()?;
        w.sync_parent("parent2", "ta")?;
        w.add_child_link("parent2", "ca", res("AS65000", "10.0.0.0/16", ""))?;
        Ok(())
    })()
    .map_err(|e| e.to_string())?;
    w.pump()?;
    Ok(w)
}

pub fn run(tier: &Tier, args: &[String]) -> i32 {
    let mut out = Outcome::new("C01", tier, "model_checking");
    out.assumptions = vec![
        "rpki crate's validation code and OpenSSL are trusted as RP primitives".into(),
        "hierarchy bounded to TA -> parent -> ca -> gc (+ optional second parent); resources drawn from the listed blocks".into(),
        "EE keys of signed objects come from a 16-key pool (hook H6); CA/ID keys are unique per path".into(),
        "virtual clock frozen; jitter 0".into(),
    ];
    let depth = crate::report::arg_value(args, "--depth")
        .and_then(|d| d.parse().ok())
        .unwrap_or(if tier.thorough { 4 } else { 4 });
    let cap = crate::report::arg_value(args, "--cap")
        .and_then(|d| d.parse().ok())
        .unwrap_or(if tier.thorough { 1500 } else { 50 });
    let mut configs = vec![Config {
        name: "w3-agg2".to_string(),
        build: Box::new(|| build_w3(world_cfg(2, 2))),
        model: C01Model { intent: Intent::default(), full_alphabet: tier.thorough, two_parents: false },
    }];
    if tier.thorough {
        configs.push(Config {
            name: "w3-simple".to_string(),
            build: Box::new(|| build_w3(world_cfg(100, 90))),
            model: C01Model { intent: Intent::default(), full_alphabet: true, two_parents: false },
        });
        configs.push(Config {
            name: "w3-two-parents-agg2".to_string(),
            build: Box::new(|| build_w3_two_parents(world_cfg(2, 2))),
            model: C01Model { intent: Intent::default(), full_alphabet: true, two_parents: true },
        });
    }
    e1run::run(
        Spec {
            property: "C01".into(),
            configs,
            depth,
            wall_cap_s: cap,
            procs: 16,
            min_states: 20,
        },
        &mut out,
    );
    out.finish()
}
