//! C02 — Delegation follows entitlements, never over-claims, converges and
//! is idempotent.

use std::collections::BTreeMap;
use std::sync::atomic::Ordering;

use krill::api::admin::{ResourceClassNameMapping, UpdateChildRequest};
use rpki::ca::provisioning::ResourceClassName;
use rpki::repository::cert::Cert;
use rpki::repository::resources::ResourceSet;
use serde_json::Value;

use crate::checks::c01;
use crate::e1::{Header, Model};
use crate::e1run::{self, Config, Spec};
use crate::ops::{Op, OpOutcome, r3};
use crate::report::{Outcome, Tier};
use crate::rp;
use crate::world::{World, WorldCfg, res};

fn rs_from_json(v: &Value) -> ResourceSet {
    ResourceSet::from_strs(
        v.get("asn").and_then(|x| x.as_str()).unwrap_or(""),
        v.get("ipv4").and_then(|x| x.as_str()).unwrap_or(""),
        v.get("ipv6").and_then(|x| x.as_str()).unwrap_or(""),
    )
    .unwrap_or_default()
}

fn cert_resources(c: &Cert) -> Option<ResourceSet> {
    ResourceSet::try_from(c).ok()
}

/// The certified keys of a class: (role, key id, resources, has open request)
fn class_keys(rc: &Value) -> Vec<(String, String, ResourceSet, bool)> {
    let mut res = Vec::new();
    let Some(ks) = rc.get("key_state").and_then(|k| k.as_object()) else {
        return res;
    };
    for (kind, v) in ks {
        // active: {key_id, incoming_cert, request}; roll_*: [a, b]; pending: {key_id, request}
        let items: Vec<&Value> = match v {
            Value::Array(a) => a.iter().collect(),
            other => vec![other],
        };
        for (i, item) in items.iter().enumerate() {
            let item = item.get("key").unwrap_or(item);
            let key_id = item
                .get("key_id")
                .and_then(|k| k.as_str())
                .unwrap_or("")
                .to_string();
            let has_req = item.get("request").map(|r| !r.is_null()).unwrap_or(false);
            let resources = item
                .get("incoming_cert")
                .map(|c| rs_from_json(&c["resources"]))
                .unwrap_or_default();
            res.push((format!("{kind}#{i}"), key_id, resources, has_req));
        }
    }
    res
}

fn ca_json(w: &World, name: &str) -> Option<Value> {
    let h = std::str::FromStr::from_str(name).ok()?;
    let ca = w.krill.ca_manager().get_ca(&h).ok()?;
    serde_json::to_value(ca.as_ref()).ok()
}

fn history_len(w: &World, name: &str) -> usize {
    use krill::commons::storage::Ident;
    let Ok(kv) = w.krill.storage().open(krill::constants::CASERVER_NS) else {
        return 0;
    };
    let Ok(scope) = Ident::boxed_from_string(name.to_string()) else { return 0 };
    kv.keys(Some(&scope), "command-").map(|k| k.len()).unwrap_or(0)
}

/// (i) after a repo sync of X: every child certificate X publishes is within
/// the certificate X holds for the issuing key.
fn own_publication_consistent(w: &World, ca_name: &str) -> Vec<String> {
    let mut problems = Vec::new();
    let Some(v) = ca_json(w, ca_name) else { return problems };
    let Ok(details) = w
        .krill
        .repo_manager()
        .get_publisher_details(crate::world::pub_h(ca_name))
    else {
        return problems;
    };
    // also staged content: use the list view for this publisher
    let Some(rcs) = v.get("resources").and_then(|r| r.as_object()) else {
        return problems;
    };
    for (rcn, rc) in rcs {
        let keys = class_keys(rc);
        let dir = format!("rsync://localhost/repo/{ca_name}/{rcn}/");
        for f in &details.current_files {
            let uri = f.uri.to_string();
            if !uri.starts_with(&dir) || !uri.ends_with(".cer") {
                continue;
            }
            let Ok(cert) = Cert::decode(f.base64.to_bytes()) else { continue };
            if !cert.is_ca() {
                continue;
            }
            let Some(cres) = cert_resources(&cert) else { continue };
            let aki = cert
                .authority_key_identifier()
                .map(|k| k.to_string())
                .unwrap_or_default();
            let Some(issuer) = keys.iter().find(|k| k.1.eq_ignore_ascii_case(&aki)) else {
                problems.push(format!(
                    "{ca_name} publishes child certificate {} issued by key {aki} which it does not hold in class {rcn}",
                    c01::short_uri(&uri)
                ));
                continue;
            };
            if !issuer.2.contains(&cres) {
                problems.push(format!(
                    "{ca_name} publishes child certificate {} with resources [{}] outside its own certificate [{}] (class {rcn}, key {})",
                    c01::short_uri(&uri), cres, issuer.2, issuer.0
                ));
            }
        }
    }
    // ... and every key in use by an *active* child still has its certificate
    // published (replaced, not dropped), carrying entitlement ∩ issuer,
    // unless nothing is left - without waiting for the child.
    let empty = serde_json::Map::new();
    let children = v.get("children").and_then(|c| c.as_object()).unwrap_or(&empty);
    for (cname, cdet) in children {
        if cdet.get("state").and_then(|s| s.as_str()) != Some("active") {
            continue;
        }
        let ent = rs_from_json(&cdet["resources"]);
        let used = cdet.get("used_keys").and_then(|u| u.as_object()).unwrap_or(&empty);
        for (ki, st) in used {
            let Some(rcn) = st.get("in_use").and_then(|r| r.as_str()) else { continue };
            let Some(rc) = rcs.get(rcn) else { continue };
            let keys = class_keys(rc);
            let Some(cur) = keys.iter().find(|k| {
                k.0.starts_with("active") || k.0 == "roll_pending#1"
                    || k.0 == "roll_new#1" || k.0 == "roll_old#0"
            }) else { continue };
            let expected = ent.intersection(&cur.2);
            let uri = format!("rsync://localhost/repo/{ca_name}/{rcn}/{ki}.cer");
            let published = details.current_files.iter().find(|f| f.uri.to_string() == uri);
            match published {
                None if !expected.is_empty() => problems.push(format!(
                    "{ca_name} does not publish a certificate for key {ki} of active child {cname} (class {rcn}) although entitlement ∩ issuer is [{expected}]"
                )),
                Some(f) => {
                    if let Ok(cert) = Cert::decode(f.base64.to_bytes())
                        && let Some(cres) = cert_resources(&cert)
                        && !expected.contains(&cres)
                    {
                        problems.push(format!(
                            "{ca_name} publishes [{cres}] for active child {cname} (class {rcn}) which exceeds entitlement ∩ issuer [{expected}]"
                        ));
                    }
                }
                _ => {}
            }
        }
    }
    problems
}

/// (ii)+(iii) at quiescence after the refresh round.
fn converged(w: &World, r: &rp::RpResult) -> Vec<(String, String)> {
    let mut v = Vec::new();
    let cm = w.krill.ca_manager();
    for ph in cm.ca_handles().unwrap_or_default() {
        let pname = ph.to_string();
        let Some(pv) = ca_json(w, &pname) else { continue };
        let empty = serde_json::Map::new();
        let children = pv.get("children").and_then(|c| c.as_object()).unwrap_or(&empty);
        let prcs = pv.get("resources").and_then(|c| c.as_object()).unwrap_or(&empty);
        for (cname, cdet) in children {
            let Some(cv) = ca_json(w, cname) else { continue }; // remote / deleted
            if cdet.get("state").and_then(|s| s.as_str()) == Some("suspended") {
                continue;
            }
            let ent = rs_from_json(&cdet["resources"]);
            let crcs = cv.get("resources").and_then(|c| c.as_object()).unwrap_or(&empty);
            // is the child's link to this parent alive? (the child may have
            // removed the parent, or know it under another id certificate)
            let knows_parent = cv
                .get("parents")
                .and_then(|p| p.as_object())
                .map(|p| p.contains_key(&pname))
                .unwrap_or(false);
            if !knows_parent {
                continue;
            }
            for (prcn, prc) in prcs {
                let pkeys = class_keys(prc);
                // the parent's current key is the one that issues
                let Some(cur) = pkeys.iter().find(|k| {
                    k.0.starts_with("active") || k.0 == "roll_pending#1"
                        || k.0 == "roll_new#1" || k.0 == "roll_old#0"
                }) else {
                    continue;
                };
                let expected = ent.intersection(&cur.2);
                // name the child uses for this class
                let child_name_for = cdet
                    .get("rcn_map")
                    .and_then(|m| m.get(prcn))
                    .and_then(|n| n.as_str())
                    .unwrap_or(prcn)
                    .to_string();
                let child_rc = crcs.values().find(|rc| {
                    rc.get("parent_handle").and_then(|p| p.as_str()) == Some(&pname)
                        && rc.get("parent_rc_name").and_then(|p| p.as_str())
                            == Some(&child_name_for)
                });
                match (expected.is_empty(), child_rc) {
                    (true, None) => {}
                    (true, Some(_)) => v.push((
                        "not-converged".into(),
                        format!("{cname} still has a resource class under {pname}/{prcn} although it is entitled to nothing there"),
                    )),
                    (false, None) => v.push((
                        "not-converged".into(),
                        format!("{cname} has no resource class under {pname}/{prcn} although it is entitled to [{expected}]"),
                    )),
                    (false, Some(rc)) => {
                        let keys = class_keys(rc);
                        let certified: Vec<_> =
                            keys.iter().filter(|k| !k.0.starts_with("pending")).collect();
                        if keys.iter().any(|k| k.3) {
                            v.push((
                                "open-request".into(),
                                format!("{cname} still has an open certificate request under {pname}/{prcn} after the sync rounds"),
                            ));
                        }
                        if rc.get("key_state").and_then(|k| k.get("active")).is_some() {
                            if let Some(k) = certified.first() {
                                if k.2 != expected {
                                    v.push((
                                        "wrong-resources".into(),
                                        format!("{cname} holds [{}] under {pname}/{prcn} but entitlement ∩ issuer is [{expected}]", k.2),
                                    ));
                                }
                                // the certificate must be the one the parent publishes
                                let published = r.cas.iter().find(|c| {
                                    c.ski.eq_ignore_ascii_case(&k.1)
                                });
                                match published {
                                    // (a parent that is itself cut off from
                                    // the TA cannot have valid children)
                                    None if c01::rc_cut_off(w, &pname, Some(prcn), 0) => {}
                                    None => v.push((
                                        "not-published".into(),
                                        format!("the certificate {cname} holds under {pname}/{prcn} is not a valid published certificate"),
                                    )),
                                    Some(p) if p.res != expected => v.push((
                                        "wrong-resources".into(),
                                        format!("published certificate of {cname} under {pname}/{prcn} carries [{}], expected [{expected}]", p.res),
                                    )),
                                    _ => {}
                                }
                            }
                        } else if certified.is_empty() {
                            v.push((
                                "not-converged".into(),
                                format!("{cname} has no certified key under {pname}/{prcn} after the sync rounds"),
                            ));
                        }
                    }
                }
            }
        }
    }
    v
}

#[derive(Clone)]
pub struct C02Model {
    pub stepwise: bool,
    pub rolls: bool,
    /// `ca` has a second parent ("parent2"), which presents its class under
    /// another name
    pub two_parents: bool,
}

impl Model for C02Model {
    fn alphabet(&mut self, _w: &World, _depth: usize, _path: &[Op]) -> Vec<Op> {
        let c = || "ca".to_string();
        let p = || "parent".to_string();
        let g = || "gc".to_string();
        let mut ops = vec![
            Op::Entitle { parent: p(), child: c(), res: c01::full_ca_res() },
            Op::Entitle { parent: p(), child: c(), res: r3("AS65000-AS65001", "10.0.0.0/16", "") },
            Op::Entitle { parent: p(), child: c(), res: r3("AS65000", "10.0.0.0/25", "") },
            Op::Entitle { parent: p(), child: c(), res: r3("", "10.1.0.0/16", "2001:db8::/48") },
            Op::Entitle { parent: c(), child: g(), res: r3("AS65001", "10.0.0.0/24", "") },
            Op::Entitle { parent: c(), child: g(), res: r3("AS65001", "10.0.0.0/24, 10.1.0.0/24", "2001:db8::/56") },
            Op::Entitle { parent: c(), child: g(), res: r3("", "10.1.0.0/24", "") },
            Op::Suspend { parent: c(), child: g() },
            Op::Unsuspend { parent: c(), child: g() },
            Op::Suspend { parent: p(), child: c() },
            Op::Unsuspend { parent: p(), child: c() },
        ];
        if self.two_parents {
            // (this configuration is about `ca` and its two parents. The
            // grandchild's entitlement is left alone here: with two classes
            // at `ca` a change of it withdraws the grandchild's certificate
            // in one class at once - a publication of `ca` - while the
            // certificate in the other class waits for the grandchild to
            // ask, and the per-publication oracle, which compares with the
            // entitlement, would take that wait for an over-claim)
            ops.retain(|o| !matches!(o, Op::Entitle { parent, .. } if parent == "ca"));
            ops.push(Op::Entitle { parent: "parent2".into(), child: c(), res: r3("AS65000", "10.0.0.0/17", "") });
            ops.push(Op::Entitle { parent: "parent2".into(), child: c(), res: r3("AS65000", "10.0.0.0/16", "") });
            ops.push(Op::Suspend { parent: "parent2".into(), child: c() });
            ops.push(Op::Unsuspend { parent: "parent2".into(), child: c() });
        }
        if self.rolls {
            ops.push(Op::RollInit { ca: c() });
            ops.push(Op::RollActivate { ca: c() });
        }
        if self.stepwise {
            ops.push(Op::Step);
            ops.push(Op::SyncParent { ca: c(), parent: p() });
            ops.push(Op::SyncParent { ca: g(), parent: c() });
        }
        ops
    }

    fn apply(&mut self, w: &mut World, op: &Op) -> OpOutcome {
        if self.stepwise {
            return w.apply(op);
        }
        // op, then run the triggered tasks one by one, checking (i) after
        // every repository synchronisation step
        let mut out = w.apply(op);
        let mut problems = Vec::new();
        for _ in 0..200 {
            use krill::server::scheduler::VerifStepOutcome as O;
            match w.step() {
                O::Idle => match w.next_due_in() {
                    Some(d) if d > 0 && d <= 1 => crate::clock::advance(d),
                    _ => break,
                },
                O::Processed { task_key, result, .. } => {
                    if let Some(rest) = task_key.split_once("-sync_repo_") {
                        problems.extend(own_publication_consistent(w, rest.1));
                    }
                    out.tasks.push(format!("{task_key}:{result}"));
                }
                O::Fatal(f) => {
                    out.fatal = Some(f);
                    break;
                }
            }
        }
        if !problems.is_empty() {
            out.err = Some(format!("C02-OVERCLAIM:{}", problems.join(" ;; ")));
        }
        out
    }

    fn check(
        &mut self, w: &mut World, path: &[Op], out: &OpOutcome, hdr: &Header,
    ) -> Vec<(String, String)> {
        if let Some(f) = &out.fatal {
            return vec![("fatal".into(), f.clone())];
        }
        let mut v = Vec::new();
        if let Some(e) = &out.err
            && let Some(p) = e.strip_prefix("C02-OVERCLAIM:")
        {
            for x in p.split(" ;; ") {
                v.push(("overclaim-published".into(), x.to_string()));
            }
            return v;
        }
        if self.stepwise {
            // every state, also non-quiescent ones
            if let Some(Op::Step) = path.last() {
                for t in &out.tasks {
                    if let Some(rest) = t.split_once("-sync_repo_") {
                        let name = rest.1.split(':').next().unwrap_or("");
                        for p in own_publication_consistent(w, name) {
                            v.push(("overclaim-published".into(), p));
                        }
                    }
                }
            }
            if !v.is_empty() {
                return v;
            }
            // the convergence oracle is evaluated on a forked-off copy of the
            // state in the non-stepwise configuration; here we only require
            // safety of the RP-visible tree
            return v;
        }
        // (iii) bounded number of syncs; (i) again at every quiescent
        // instant in between: a CA that just picked up a smaller certificate
        // must not publish children's certificates beyond it until those
        // children call in
        let mut transient: Vec<String> = Vec::new();
        let names_all: Vec<String> = w.krill.ca_manager().ca_handles().unwrap_or_default().iter().map(|h| h.to_string()).collect();
        let settled = w.settle_observed(&mut |w2, _just_synced| {
            for n in &names_all {
                for p in own_publication_consistent(w2, n) {
                    if !transient.contains(&p) {
                        transient.push(p);
                    }
                }
            }
        });
        if let Err(f) = settled {
            return vec![("fatal".into(), f)];
        }
        if !transient.is_empty() {
            return transient.into_iter().map(|p| ("overclaim-published".to_string(), format!("during the refresh round: {p}"))).collect();
        }
        hdr.counters[0].fetch_add(1, Ordering::Relaxed);
        let (rrdp, _n) = match rp::view_from_rrdp(w) {
            Ok(x) => x,
            Err(e) => return vec![("rrdp-view".into(), e)],
        };
        let r = rp::validate(w, &rrdp);
        for (uri, why) in &r.rejections {
            v.push(("rp-reject".into(), format!("{why} [{}]", c01::short_uri(uri))));
        }
        v.extend(converged(w, &r));
        if !v.is_empty() {
            return v;
        }
        // (iv) one more round changes nothing
        let names: Vec<String> = w
            .krill
            .ca_manager()
            .ca_handles()
            .unwrap_or_default()
            .iter()
            .map(|h| h.to_string())
            .collect();
        let before: BTreeMap<String, usize> =
            names.iter().map(|n| (n.clone(), history_len(w, n))).collect();
        let view_before = rp::view_from_lists(w).unwrap_or_default();
        if let Err(f) = w.settle() {
            return vec![("fatal".into(), f)];
        }
        let view_after = rp::view_from_lists(w).unwrap_or_default();
        for n in &names {
            let after = history_len(w, n);
            if after != before[n] {
                v.push((
                    "not-idempotent".into(),
                    format!("an extra synchronisation round added {} command(s) to the history of {n}", after as i64 - before[n] as i64),
                ));
            }
        }
        if view_before != view_after {
            v.push((
                "not-idempotent".into(),
                "an extra synchronisation round changed the repository content".into(),
            ));
        }
        v
    }
}

pub fn build_mapped(cfg: WorldCfg) -> Result<World, String> {
    crate::checks::c03::build_mapped(cfg)
}

/// The issuer shrinks while a child has not yet picked up a changed
/// entitlement: all steps are direct calls, no task order is involved.
fn shrink_before_child_sync_scenario() -> Vec<crate::report::Finding> {
    let mut findings = Vec::new();
    let root = crate::e1run::scratch_root().with_extension("c02s");
    let _ = std::fs::remove_dir_all(&root);
    std::fs::create_dir_all(&root).unwrap();
    let (r, _) = crate::e3::fork_in_dir(&root, || -> Result<Vec<String>, String> {
        let f = c01::full_ca_res();
        let mut w = World::build_w3(WorldCfg::default(), res(&f.0, &f.1, &f.2), res("AS65001", "10.0.0.0/24", "")).map_err(|e| e.to_string())?;
        w.settle()?;
        let ops = [
            // gc is now entitled to something else; it has not synchronised yet
            crate::ops::Op::Entitle { parent: "ca".into(), child: "gc".into(), res: crate::ops::r3("", "10.1.0.0/24", "") },
            // ca's own resources shrink to a part of what gc's certificate still carries
            crate::ops::Op::Entitle { parent: "parent".into(), child: "ca".into(), res: crate::ops::r3("AS65000", "10.0.0.0/25", "") },
            crate::ops::Op::SyncParent { ca: "ca".into(), parent: "parent".into() },
            crate::ops::Op::SyncParent { ca: "ca".into(), parent: "parent".into() },
            crate::ops::Op::SyncRepo { ca: "ca".into() },
        ];
        for op in &ops {
            let o = w.apply(op);
            if !o.ok {
                return Err(format!("{op}: {:?}", o.err));
            }
        }
        Ok(own_publication_consistent(&w, "ca"))
    });
    let _ = std::fs::remove_dir_all(&root);
    match r {
        Some(Ok(problems)) => {
            for p in problems {
                findings.push(crate::report::Finding {
                    signature: format!("overclaim-published|{} @ scenario=shrink-before-child-sync", crate::e1::normalize(&p)),
                    text: format!("[shrink-before-child-sync] overclaim-published: {p}; steps: gc's entitlement changed to 10.1.0.0/24 (gc has not synchronised), ca shrunk to AS65000+10.0.0.0/25, ca synchronised with its parent and its repository"),
                    replay: serde_json::json!({"scenario": "shrink-before-child-sync", "detail": p}),
                });
            }
        }
        Some(Err(e)) => findings.push(crate::report::Finding {
            signature: format!("machinery|{e}"),
            text: format!("machinery: scenario shrink-before-child-sync could not run: {e}"),
            replay: serde_json::json!({}),
        }),
        None => {}
    }
    findings
}

pub fn run(tier: &Tier, args: &[String]) -> i32 {
    let mut out = Outcome::new("C02", tier, "model_checking");
    out.assumptions = vec![
        "\"bounded number of synchronisations\" = triggered tasks + two top-down rounds of child->parent syncs".into(),
        "the over-claim clause is evaluated on each CA's own publication right after each of its repository synchronisations, against the certificate that CA holds (a parent publishes a shrunk certificate before the child can have reacted; that window is inherent to RFC 6492)".into(),
        "request limits are not exercised by local children (krill children never send one)".into(),
        "topology TA->parent->ca->gc, class-name mapping variant, resources from the listed blocks; frozen clock".into(),
    ];
    let depth = crate::report::arg_value(args, "--depth")
        .and_then(|d| d.parse().ok())
        .unwrap_or(if tier.thorough { 6 } else { 3 });
    let cap = crate::report::arg_value(args, "--cap")
        .and_then(|d| d.parse().ok())
        .unwrap_or(if tier.thorough { 1500 } else { 50 });
    fn build_plain_w3() -> Result<World, String> {
        let f = c01::full_ca_res();
        World::build_w3(WorldCfg::default(), res(&f.0, &f.1, &f.2), res("AS65001", "10.0.0.0/24", "")).map_err(|e| e.to_string())
    }
    let build_plain = || -> Result<World, String> {
        let f = c01::full_ca_res();
        let w = World::build_w3(
            WorldCfg::default(),
            res(&f.0, &f.1, &f.2),
            res("AS65001", "10.0.0.0/24", ""),
        )
        .map_err(|e| e.to_string())?;
        w.settle()?;
        Ok(w)
    };
    let mut configs = vec![
        Config {
            name: "w3".into(),
            build: Box::new(build_plain),
            model: C02Model { stepwise: false, rolls: false, two_parents: false },
        },
        Config {
            name: "w3-mapped-class".into(),
            build: Box::new(|| build_mapped(WorldCfg::default())),
            model: C02Model { stepwise: false, rolls: tier.thorough, two_parents: false },
        },
    ];
    // the grandchild is suspended from the start (what happens to its
    // certificate while it is away shows when it comes back: one step less)
    configs.push(Config {
        name: "w3-gc-suspended".into(),
        build: Box::new(|| {
            let mut w = build_plain_w3()?;
            w.settle()?;
            let o = w.apply_pumped(&Op::Suspend { parent: "ca".into(), child: "gc".into() });
            if !o.ok {
                return Err(format!("suspend gc: {:?}", o.err));
            }
            w.settle()?;
            Ok(w)
        }),
        model: C02Model { stepwise: false, rolls: false, two_parents: false },
    });
    // two parents that call their class for `ca` by different names
    configs.push(Config {
        name: "w3-two-parents-mapped".into(),
        build: Box::new(|| {
            let w = build_plain_w3()?;
            (|| -> crate::world::KResult<()> {
                w.add_ca("parent2")?;
                w.add_child_link("ta", "parent2", res("AS65000-AS65010", "10.0.0.0/8", ""))?;
                w.sync_parent("parent2", "ta")?;
                w.sync_parent("parent2", "ta")?;
                w.sync_ta()?;
                w.sync_parent("parent2", "ta")?;
                w.add_child_link("parent2", "ca", res("AS65000", "10.0.0.0/16", ""))?;
                // (a mapping can only be set before the child has a certificate)
                w.update_child(
                    "parent2",
                    "ca",
                    UpdateChildRequest::resource_class_name_mapping(ResourceClassNameMapping {
                        name_in_parent: ResourceClassName::from("0"),
                        name_for_child: ResourceClassName::from("y"),
                    }),
                )?;
                Ok(())
            })()
            .map_err(|e| e.to_string())?;
            // (best effort: whether synchronisation with both parents
            // settles is what the exploration judges, at the first step)
            let _ = w.pump();
            let _ = w.settle();
            let _ = w.settle();
            Ok(w)
        }),
        model: C02Model { stepwise: false, rolls: false, two_parents: true },
    });
    // (A configuration that ran the queued tasks one at a time was removed:
    // which of several tasks queued by one event comes first follows the
    // iteration order of a hash map inside krill, which this machinery does
    // not control, so a violation seen during exploration could not be
    // replayed. The one order-dependent behaviour it had shown is pinned
    // down by the deterministic scenario below.)
    let _ = C02Model { stepwise: true, rolls: false, two_parents: false };
    out.findings.extend(shrink_before_child_sync_scenario());
    let _ = (UpdateChildRequest::suspend(), ResourceClassNameMapping {
        name_in_parent: ResourceClassName::from("0"),
        name_for_child: ResourceClassName::from("0"),
    });
    e1run::run(
        Spec { property: "C02".into(), configs, depth, wall_cap_s: cap, procs: 16, min_states: 20 },
        &mut out,
    );
    out.finish()
}
