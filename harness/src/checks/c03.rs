//! C03 — Whatever is revoked, removed or replaced is withdrawn and stays on
//! the CRL.

use std::collections::{BTreeMap, BTreeSet};
use std::sync::atomic::Ordering;

use krill::api::admin::{ResourceClassNameMapping, UpdateChildRequest};
use rpki::ca::provisioning::ResourceClassName;
use rpki::repository::x509::{Serial, Time};

use crate::checks::c01::{self, C01Model, Intent};
use crate::e1::{Header, Model};
use crate::e1run::{self, Config, Spec};
use crate::ops::{Op, OpOutcome, r3};
use crate::report::{Outcome, Tier};
use crate::rp::{self, RpResult};
use crate::world::{World, WorldCfg, res};

#[derive(Clone, Debug)]
pub struct Obj {
    pub uri: String,
    pub kind: &'static str,
    pub serial: Serial,
    pub not_after: i64,
}

/// Carried along every explored path.
#[derive(Clone, Debug, Default)]
pub struct History {
    /// (issuer ski, serial) -> object, for everything ever accepted
    pub seen: BTreeMap<(String, String), Obj>,
    pub present: BTreeSet<(String, String)>,
}

impl History {
    /// Feed the RP result of the new state; returns violations.
    pub fn observe(&mut self, r: &RpResult, hdr: &Header) -> Vec<(String, String)> {
        let now = Time::now().timestamp();
        let mut v = Vec::new();
        let mut current: BTreeSet<(String, String)> = BTreeSet::new();
        for o in &r.accepted {
            if o.kind == "mft" {
                continue;
            }
            let key = (o.issuer.clone(), o.serial.clone());
            current.insert(key.clone());
            self.seen.entry(key).or_insert_with(|| Obj {
                uri: o.uri.clone(),
                kind: o.kind,
                serial: o.serial_nr.unwrap(),
                not_after: o.not_after,
            });
        }
        // everything that was ever seen and is not current now must be on
        // its issuer's CRL while that key still publishes one and the object
        // has not expired
        for (key, obj) in &self.seen {
            if current.contains(key) {
                continue;
            }
            let newly = self.present.contains(key);
            if obj.not_after <= now {
                continue;
            }
            let Some(point) = r.cas.iter().find(|c| c.ski == key.0) else {
                continue; // the issuing key no longer publishes a CRL
            };
            hdr.counters[10].fetch_add(1, Ordering::Relaxed);
            let on_crl = point
                .crl
                .as_ref()
                .map(|c| c.contains(obj.serial))
                .unwrap_or(false);
            if !on_crl {
                v.push((
                    if newly { "not-revoked".to_string() } else { "dropped-from-crl".to_string() },
                    format!(
                        "{} {} (issuer {}) is no longer current but its serial is not on the issuer's CRL [{}]",
                        obj.kind,
                        c01::short_uri(&obj.uri),
                        c01::short_uri(&point.cert_uri),
                        if newly { "stopped being current in this step" } else { "was revoked earlier, now missing from CRL" }
                    ),
                ));
            }
        }
        self.present = current;
        v
    }
}

#[derive(Clone)]
pub struct C03Model {
    pub inner: C01Model,
    pub history: History,
    pub mapped: bool,
    /// operations applied without running triggered tasks; Pump / Step are
    /// operations; no refresh round: key-roll intermediate states (old key
    /// publishing only manifest + CRL) are observed
    pub raw: bool,
}

impl Model for C03Model {
    fn apply(&mut self, w: &mut World, op: &Op) -> OpOutcome {
        // raw configuration: only the activation is left un-pumped, so that
        // the old key keeps publishing its manifest and CRL
        if self.raw && matches!(op, Op::RollActivate { .. } | Op::SyncRepo { .. }) {
            w.apply(op)
        } else {
            w.apply_pumped(op)
        }
    }

    fn alphabet(&mut self, w: &World, depth: usize, path: &[Op]) -> Vec<Op> {
        let c = || "ca".to_string();
        let p = || "parent".to_string();
        if self.raw {
            if path.is_empty() {
                // prime the monitor with the initial repository content
                if let Ok(lists) = rp::view_from_lists(w) {
                    let r = rp::validate(w, &lists);
                    let dummy = crate::e1::Shared::new();
                    let _ = self.history.observe(&r, dummy.header());
                }
            }
            return vec![
                Op::Roa { ca: c(), add: vec![c01::ROA_B.into()], del: vec![] },
                Op::Roa { ca: c(), add: vec![], del: vec![c01::ROA_A.into()] },
                Op::ForceRenewRoas,
                Op::Entitle { parent: c(), child: "gc".into(), res: r3("AS65001", "10.0.0.0/25", "") },
                Op::RemoveChild { parent: c(), child: "gc".into() },
                Op::RollInit { ca: c() },
                Op::RollActivate { ca: c() },
                Op::SyncRepo { ca: c() },
                Op::Pump,
            ];
        }
        let mut ops = vec![
            Op::Roa { ca: c(), add: vec![c01::ROA_A.into()], del: vec![] },
            Op::Roa { ca: c(), add: vec![c01::ROA_C.into(), c01::ROA_D.into()], del: vec![] },
            Op::Roa { ca: c(), add: vec![], del: vec![c01::ROA_A.into()] },
            // removal and additions that cross the aggregation threshold in
            // one delta, and the reverse
            Op::Roa { ca: c(), add: vec![c01::ROA_B.into(), c01::ROA_C.into(), c01::ROA_D.into()], del: vec![c01::ROA_A.into()] },
            Op::Roa { ca: c(), add: vec![c01::ROA_A.into()], del: vec![c01::ROA_B.into(), c01::ROA_C.into(), c01::ROA_D.into()] },
            Op::ForceRenewRoas,
            Op::AspaSet { ca: c(), customer: 65000, providers: vec![65001] },
            Op::AspaDel { ca: c(), customer: 65000 },
            Op::AspaSwap { ca: c(), remove: 65000, customer: 65001, providers: vec![65002] },
            // all authorisations of an aggregating class removed at once
            Op::Roa { ca: c(), add: vec![], del: vec![c01::ROA_B.into(), c01::ROA_C.into(), c01::ROA_D.into()] },
            Op::BgpsecAdd { ca: c(), asn: 65000, csr: 0 },
            Op::BgpsecDel { ca: c(), asn: 65000, csr: 0 },
            Op::Entitle { parent: p(), child: c(), res: r3("AS65000", "10.0.0.0/16", "") },
            Op::Entitle { parent: p(), child: c(), res: r3("", "10.1.0.0/16", "2001:db8::/48") },
            Op::Entitle { parent: p(), child: c(), res: c01::full_ca_res() },
            Op::Suspend { parent: p(), child: c() },
            Op::Unsuspend { parent: p(), child: c() },
            Op::Suspend { parent: c(), child: "gc".into() },
            Op::Unsuspend { parent: c(), child: "gc".into() },
            Op::RemoveChild { parent: c(), child: "gc".into() },
            Op::RollInit { ca: c() },
            Op::RollActivate { ca: c() },
            Op::DeleteCa { ca: c() },
        ];
        if self.inner.two_parents {
            ops.push(Op::RemoveParent { ca: c(), parent: "parent2".into() });
            ops.push(Op::RemoveParent { ca: c(), parent: p() });
        }
        let _ = (w, depth, path);
        ops
    }

    fn check(
        &mut self, w: &mut World, path: &[Op], out: &OpOutcome, hdr: &Header,
    ) -> Vec<(String, String)> {
        let op = path.last().unwrap();
        self.inner.intent.update(op, out);
        if let Some(f) = &out.fatal {
            return vec![("fatal".into(), f.clone())];
        }
        if self.raw {
            // observe the repository as it is; an object only counts as
            // "stopped being current" once it has left the repository
            if let Op::SyncRepo { .. } = op {
                let _ = w.krill.repo_manager().update_rrdp_if_needed();
            }
            let lists = match rp::view_from_lists(w) {
                Ok(x) => x,
                Err(e) => return vec![("view".into(), e)],
            };
            let r = rp::validate(w, &lists);
            return self.history.observe(&r, hdr);
        }
        // "after the next synchronisation": every CA had its turn
        if let Err(f) = w.settle() {
            return vec![("fatal".into(), f)];
        }
        let (rrdp, _n) = match rp::view_from_rrdp(w) {
            Ok(x) => x,
            Err(e) => return vec![("rrdp-view".into(), e)],
        };
        let r = rp::validate(w, &rrdp);
        let mut v = Vec::new();
        for (uri, why) in &r.rejections {
            v.push(("rp-reject".into(), format!("{why} [{}]", c01::short_uri(uri))));
        }
        let reachable: BTreeSet<&str> = r.cas.iter().map(|c| c.repo_dir.as_str()).collect();
        for uri in &r.unreferenced {
            let dir = match uri.rfind('/') { Some(i) => &uri[..=i], None => uri.as_str() };
            if !reachable.contains(dir) && c01::orphan_is_legit(w, uri) {
                continue;
            }
            v.push((
                "still-published".into(),
                format!("{} is still in the repository but no valid manifest lists it", c01::short_uri(uri)),
            ));
        }
        v.extend(self.history.observe(&r, hdr));
        v
    }
}

pub fn build_mapped(cfg: WorldCfg) -> Result<World, String> {
    // TA -> parent -> ca (class "0" of parent is called "x" for ca) -> gc
    let w = World::build_ta_parent(cfg).map_err(|e| e.to_string())?;
    let f = c01::full_ca_res();
    (|| -> crate::world::KResult<()> {
        w.add_ca("ca")?;
        w.add_child_link("parent", "ca", res(&f.0, &f.1, &f.2))?;
        w.update_child(
            "parent",
            "ca",
            UpdateChildRequest::resource_class_name_mapping(ResourceClassNameMapping {
                name_in_parent: ResourceClassName::from("0"),
                name_for_child: ResourceClassName::from("x"),
            }),
        )?;
        Ok(())
    })()
    .map_err(|e| e.to_string())?;
    w.pump()?;
    (|| -> crate::world::KResult<()> {
        w.add_ca("gc")?;
        w.add_child_link("ca", "gc", res("AS65001", "10.0.0.0/24", ""))?;
        Ok(())
    })()
    .map_err(|e| e.to_string())?;
    w.pump()?;
    w.settle()?;
    Ok(w)
}

pub fn run(tier: &Tier, args: &[String]) -> i32 {
    let mut out = Outcome::new("C03", tier, "model_checking");
    out.assumptions = vec![
        "objects are identified by (issuing key, serial); manifests are exempt as the property states".into(),
        "\"after the next synchronisation\" = triggered tasks pumped and every CA synced once with each parent".into(),
        "rpki crate validation + OpenSSL trusted; topology TA->parent->ca->gc (+ second parent, + class-name mapping variant)".into(),
    ];
    let depth = crate::report::arg_value(args, "--depth")
        .and_then(|d| d.parse().ok())
        .unwrap_or(if tier.thorough { 5 } else { 4 });
    let cap = crate::report::arg_value(args, "--cap")
        .and_then(|d| d.parse().ok())
        .unwrap_or(if tier.thorough { 1500 } else { 55 });
    let mk = |two: bool, mapped: bool| C03Model {
        inner: C01Model { intent: Intent::default(), full_alphabet: true, two_parents: two },
        history: History::default(),
        mapped,
        raw: false,
    };
    let mut configs = vec![
        Config {
            name: "w3-raw-roll-steps".into(),
            build: Box::new(|| {
                let mut w = c01::build_w3(c01::world_cfg(2, 2))?;
                let o = w.apply_pumped(&Op::Roa {
                    ca: "ca".into(), add: vec![c01::ROA_A.into()], del: vec![],
                });
                if !o.ok {
                    return Err(format!("set-up failed: {:?}", o.err));
                }
                w.settle()?;
                Ok(w)
            }),
            model: C03Model { raw: true, ..mk(false, false) },
        },
        Config {
            name: "w3-mapped-class".into(),
            build: Box::new(|| build_mapped(c01::world_cfg(2, 2))),
            model: mk(false, true),
        },
        Config {
            name: "w3".into(),
            build: Box::new(|| c01::build_w3(c01::world_cfg(2, 2))),
            model: mk(false, false),
        },
    ];
    if tier.thorough {
        configs.push(Config {
            name: "w3-two-parents".into(),
            build: Box::new(|| c01::build_w3_two_parents(c01::world_cfg(2, 2))),
            model: mk(true, false),
        });
    }
    e1run::run(
        Spec { property: "C03".into(), configs, depth, wall_cap_s: cap, procs: 16, min_states: 20 },
        &mut out,
    );
    out.finish()
}
