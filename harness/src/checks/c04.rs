//! C04 — Key rollover is safe in every interleaving and always completes.

use std::collections::BTreeMap;
use std::sync::atomic::Ordering;

use serde_json::Value;

use crate::checks::c01::{self, C01Model, Intent};
use crate::e1::{Header, Model};
use crate::e1run::{self, Config, Spec};
use crate::ops::{Op, OpOutcome, r3};
use crate::report::{Outcome, Tier};
use crate::rp::{self, RpResult};
use crate::world::{World, WorldCfg, res};

/// Runs `f` on a forked copy of the current state (directory copied, process
/// forked) and returns what it reports. The explored state is untouched.
pub fn what_if(
    w: &mut World,
    f: impl FnOnce(&mut World) -> Vec<(String, String)>,
) -> Result<Vec<(String, String)>, String> {
    use std::io::Write;
    let cwd = std::env::current_dir().map_err(|e| e.to_string())?;
    let me = std::process::id();
    let dir = cwd.with_extension(format!("whatif{me}"));
    let out_file = cwd.with_extension(format!("whatif{me}.json"));
    let _ = std::fs::remove_dir_all(&dir);
    let _ = std::fs::remove_file(&out_file);
    copy_dir(&cwd, &dir).map_err(|e| format!("what_if copy: {e}"))?;
    let _ = std::io::stdout().flush();
    let pid = unsafe { libc::fork() };
    if pid < 0 {
        return Err("what_if: fork failed".into());
    }
    if pid == 0 {
        let _ = std::env::set_current_dir(&dir);
        let r = std::panic::catch_unwind(std::panic::AssertUnwindSafe(|| f(w)));
        let v = match r {
            Ok(v) => v,
            Err(p) => vec![("panic".to_string(), crate::e1::panic_message(&p))],
        };
        let _ = std::fs::write(&out_file, serde_json::to_vec(&v).unwrap());
        unsafe { libc::_exit(0) };
    }
    let mut status = 0;
    unsafe { libc::waitpid(pid, &mut status, 0) };
    let _ = std::fs::remove_dir_all(&dir);
    let bytes = std::fs::read(&out_file).map_err(|e| format!("what_if: no result ({e}), status {status:#x}"))?;
    let _ = std::fs::remove_file(&out_file);
    serde_json::from_slice(&bytes).map_err(|e| e.to_string())
}

fn copy_dir(src: &std::path::Path, dst: &std::path::Path) -> std::io::Result<()> {
    std::fs::create_dir_all(dst)?;
    for entry in std::fs::read_dir(src)? {
        let entry = entry?;
        let name = entry.file_name();
        let ft = entry.file_type()?;
        if ft.is_dir() {
            if name == ".locks" {
                continue;
            }
            if name == ".tmp" {
                // krill creates this directory only when a store is opened
                std::fs::create_dir_all(dst.join(&name))?;
                continue;
            }
            copy_dir(&entry.path(), &dst.join(&name))?;
        } else if ft.is_file() {
            std::fs::copy(entry.path(), dst.join(&name))?;
        }
    }
    Ok(())
}

fn ca_json(w: &World, name: &str) -> Option<Value> {
    let h = std::str::FromStr::from_str(name).ok()?;
    let ca = w.krill.ca_manager().get_ca(&h).ok()?;
    serde_json::to_value(ca.as_ref()).ok()
}

/// kind of key state per class of a CA: "active", "roll_new", ...
pub fn key_states(w: &World, name: &str) -> BTreeMap<String, (String, bool)> {
    let mut m = BTreeMap::new();
    let Some(v) = ca_json(w, name) else { return m };
    let Some(rcs) = v.get("resources").and_then(|r| r.as_object()) else { return m };
    for (rcn, rc) in rcs {
        if let Some(ks) = rc.get("key_state").and_then(|k| k.as_object()) {
            for (kind, val) in ks {
                let s = val.to_string();
                let open = s.contains("\"request\":{") || s.contains("\"revoke_req\"");
                m.insert(rcn.clone(), (kind.clone(), open));
            }
        }
    }
    m
}

/// Exactly one key signs products.
pub fn single_signer(r: &RpResult) -> Vec<(String, String)> {
    let mut v = Vec::new();
    let mut by_dir: BTreeMap<&str, Vec<&rp::CaPoint>> = BTreeMap::new();
    for p in &r.cas {
        by_dir.entry(p.repo_dir.as_str()).or_default().push(p);
    }
    for (dir, points) in by_dir {
        let with_products: Vec<_> =
            points.iter().filter(|p| !p.products.is_empty()).collect();
        if with_products.len() > 1 {
            v.push((
                "two-signing-keys".into(),
                format!(
                    "{} keys publish products in {}: {:?}",
                    with_products.len(),
                    c01::short_uri(dir),
                    with_products
                        .iter()
                        .map(|p| format!("{} products", p.products.len()))
                        .collect::<Vec<_>>()
                ),
            ));
        }
        if points.len() > 2 {
            v.push((
                "too-many-keys".into(),
                format!("{} keys publish in {}", points.len(), c01::short_uri(dir)),
            ));
        }
    }
    v
}

/// Key identifiers (hex) in every key state of every class of a CA.
fn own_keys(w: &World, name: &str) -> Option<std::collections::BTreeSet<String>> {
    fn walk(v: &Value, out: &mut std::collections::BTreeSet<String>) {
        match v {
            Value::Object(m) => {
                for (k, x) in m {
                    if k == "key_id" {
                        if let Some(s) = x.as_str() {
                            out.insert(s.to_ascii_uppercase());
                        }
                    }
                    walk(x, out);
                }
            }
            Value::Array(a) => a.iter().for_each(|x| walk(x, out)),
            _ => {}
        }
    }
    let v = ca_json(w, name)?;
    let mut out = std::collections::BTreeSet::new();
    walk(v.get("resources")?, &mut out);
    Some(out)
}

/// "Once the parent confirms revocation the old key's publication point and
/// certificate disappear" - not before: a CA must not give up a key (and
/// with it the key's manifest and CRL) while one of its parents still holds
/// an unrevoked certificate for that key. Judged on the CAs' own state, so
/// that it can be evaluated between any two steps (what the publication
/// server holds lags behind while repository synchronisations are queued).
pub fn abandoned_certified_keys(w: &World, name: &str) -> Vec<(String, String)> {
    let mut v = Vec::new();
    let cm = w.krill.ca_manager();
    let Ok(me) = cm.get_ca(&crate::world::ca(name)) else { return v };
    let Some(mine) = own_keys(w, name) else { return v };
    for p in me.parents() {
        if p.as_str() == "ta" {
            continue;
        }
        let Ok(pca) = cm.get_ca(&crate::world::ca(p.as_str())) else { continue };
        let Ok(list) = pca.list(&crate::world::child_h(name), &w.config.issuance_timing) else { continue };
        for class in list.classes() {
            for issued in class.issued_certs() {
                let ki = issued.cert().subject_key_identifier().to_string().to_ascii_uppercase();
                if !mine.contains(&ki) {
                    v.push((
                        "key-dropped-before-revocation".into(),
                        format!(
                            "{p} still holds an unrevoked certificate (class {}) for key {} of {name}, but {name} no longer has that key: its manifest and CRL are withdrawn while the certificate stays published",
                            class.class_name(), &ki[..8]
                        ),
                    ));
                }
            }
        }
    }
    v
}

#[derive(Clone)]
pub struct C04Model {
    pub inner: C01Model,
    /// the CA that rolls
    pub roller: String,
    pub roller_parent: String,
    pub stepwise: bool,
    /// operations are applied without running the triggered tasks; `Pump`
    /// and `Step` are operations of their own (reduced alphabet)
    pub raw: bool,
}

impl Model for C04Model {
    fn alphabet(&mut self, _w: &World, _depth: usize, _path: &[Op]) -> Vec<Op> {
        let c = || self.roller.clone();
        let p = || self.roller_parent.clone();
        if self.raw {
            let mut ops = vec![
                Op::RollInit { ca: c() },
                Op::RollActivate { ca: c() },
                Op::Pump,
                Op::Step,
                Op::Roa { ca: c(), add: vec![c01::ROA_A.into()], del: vec![] },
                Op::Restart,
            ];
            if self.roller == "ca" && self.inner.two_parents {
                // one exchange with one parent at a time
                ops.extend([
                    Op::SyncParent { ca: c(), parent: p() },
                    Op::SyncParent { ca: c(), parent: "parent2".into() },
                    Op::Entitle { parent: "parent2".into(), child: c(), res: r3("AS65000", "10.0.0.0/17", "") },
                ]);
            } else if self.roller == "ca" {
                ops.extend([
                    Op::Entitle { parent: p(), child: c(), res: r3("AS65000-AS65001", "10.0.0.0/16", "") },
                    Op::Entitle { parent: c(), child: "gc".into(), res: r3("AS65001", "10.0.0.0/25", "") },
                    Op::SyncParent { ca: "gc".into(), parent: c() },
                ]);
            } else {
                ops.extend([
                    Op::Entitle { parent: c(), child: "ca".into(), res: r3("AS65000-AS65001", "10.0.0.0/16", "") },
                    Op::SyncParent { ca: "ca".into(), parent: c() },
                    Op::SyncTa,
                ]);
            }
            return ops;
        }
        let mut ops = vec![
            Op::RollInit { ca: c() },
            Op::RollActivate { ca: c() },
            Op::Roa { ca: c(), add: vec![c01::ROA_A.into()], del: vec![] },
            Op::Roa { ca: c(), add: vec![], del: vec![c01::ROA_A.into()] },
            // enough authorisations at once for aggregated ROAs (thresholds 2/2)
            Op::Roa { ca: c(), add: vec![c01::ROA_B.into(), c01::ROA_C.into(), c01::ROA_D.into()], del: vec![] },
            Op::AspaSet { ca: c(), customer: 65000, providers: vec![65001] },
            Op::BgpsecAdd { ca: c(), asn: 65000, csr: 0 },
            Op::Restart,
        ];
        if self.roller == "ca" {
            ops.extend([
                Op::Entitle { parent: p(), child: c(), res: r3("AS65000-AS65001", "10.0.0.0/16", "") },
                Op::Entitle { parent: p(), child: c(), res: c01::full_ca_res() },
                Op::Entitle { parent: c(), child: "gc".into(), res: r3("AS65001", "10.0.0.0/25", "") },
                Op::Suspend { parent: c(), child: "gc".into() },
                Op::SyncParent { ca: "gc".into(), parent: c() },
                Op::RollInit { ca: "gc".into() },
                Op::RollActivate { ca: "gc".into() },
            ]);
            if self.inner.two_parents {
                ops.push(Op::RemoveParent { ca: c(), parent: "parent2".into() });
            }
        } else {
            // rolling directly under the TA
            ops.extend([
                Op::Entitle { parent: c(), child: "ca".into(), res: r3("AS65000-AS65001", "10.0.0.0/16", "") },
                Op::SyncParent { ca: "ca".into(), parent: c() },
                Op::RenewTa,
            ]);
        }
        if self.stepwise {
            ops.push(Op::Step);
            ops.push(Op::SyncParent { ca: c(), parent: p() });
            if self.roller_parent == "ta" {
                ops.push(Op::SyncTa);
            }
        }
        ops
    }

    fn apply(&mut self, w: &mut World, op: &Op) -> OpOutcome {
        if self.stepwise || self.raw { w.apply(op) } else { w.apply_pumped(op) }
    }

    fn check(
        &mut self, w: &mut World, path: &[Op], out: &OpOutcome, hdr: &Header,
    ) -> Vec<(String, String)> {
        let op = path.last().unwrap();
        self.inner.intent.update(op, out);
        if let Some(f) = &out.fatal {
            return vec![("fatal".into(), f.clone())];
        }
        let mut v = Vec::new();
        // --- safety on the RP-visible tree in this very state
        let lists = match rp::view_from_lists(w) {
            Ok(x) => x,
            Err(e) => return vec![("view".into(), e)],
        };
        let r = rp::validate(w, &lists);
        // (in non-quiescent states a parent may already publish a certificate
        // whose publication point the child has not synchronised yet)
        let quiescent = w.next_due_in().map(|d| d > 0).unwrap_or(true);
        if !self.stepwise && (!self.raw || quiescent) {
            for (uri, why) in &r.rejections {
                v.push(("rp-reject".into(), format!("{why} [{}]", c01::short_uri(uri))));
            }
        }
        v.extend(single_signer(&r));
        v.extend(abandoned_certified_keys(w, &self.roller));
        for p in c01::compare_payloads(&r, &self.inner.intent) {
            // duplicates / extras are safety; completeness is checked after
            // the continuation below
            if p.contains("extra") {
                // where tasks are explicit steps, a payload that was just
                // removed from the configuration stays published until the
                // CA's repository synchronisation (a queued task) has run
                let sync_outstanding = (self.stepwise || self.raw)
                    && w.pending_tasks().iter().any(|(_, n)| n.starts_with("sync_repo_") || n == "update_rrdp_if_needed");
                if !sync_outstanding {
                    v.push(("payload".into(), p));
                }
            }
        }
        let ks = key_states(w, &self.roller);
        for (_rcn, (kind, _)) in &ks {
            let idx = match kind.as_str() {
                "pending" => 0,
                "active" => 1,
                "roll_pending" => 2,
                "roll_new" => 3,
                "roll_old" => 4,
                _ => 5,
            };
            hdr.counters[idx].fetch_add(1, Ordering::Relaxed);
        }
        if !v.is_empty() {
            return v;
        }
        // --- completion: a fixed continuation must end with one active key
        // per class, no open request, and the C01 oracle holding
        let roller = self.roller.clone();
        let mut inner = self.inner.clone();
        hdr.counters[8].fetch_add(1, Ordering::Relaxed);
        let res = what_if(w, move |w| {
            let mut v = Vec::new();
            for _round in 0..2 {
                if let Err(f) = w.settle() {
                    return vec![("fatal".into(), f)];
                }
                let states = key_states(w, &roller);
                if states.values().all(|(k, open)| k == "active" && !open) {
                    break;
                }
                // the operator (or the roll automation) proceeds
                let o = w.apply_pumped(&Op::RollActivate { ca: roller.clone() });
                if let Some(f) = o.fatal {
                    return vec![("fatal".into(), f)];
                }
            }
            if let Err(f) = w.settle() {
                return vec![("fatal".into(), f)];
            }
            let states = key_states(w, &roller);
            for (rcn, (kind, open)) in &states {
                if kind != "active" || *open {
                    v.push((
                        "roll-not-completed".into(),
                        format!(
                            "class {rcn} of {roller} is in state '{kind}' (open request: {open}) after settle + activate + settle, twice"
                        ),
                    ));
                }
            }
            if !v.is_empty() {
                return v;
            }
            // and the tree is complete and valid again
            let hdr_dummy = crate::e1::Shared::new();
            let fake = OpOutcome { ok: true, err: None, tasks: vec![], fatal: None };
            let mut r = inner.check(w, &[Op::Pump], &fake, hdr_dummy.header());
            for x in r.iter_mut() {
                x.0 = format!("after-roll-{}", x.0);
            }
            r
        });
        match res {
            Ok(x) => x,
            Err(e) => vec![("machinery".into(), e)],
        }
    }
}

pub fn run(tier: &Tier, args: &[String]) -> i32 {
    let mut out = Outcome::new("C04", tier, "model_checking");
    out.assumptions = vec![
        "roll steps are the API operations init/activate plus the synchronisations that the task queue performs; in the pumped configurations triggered tasks run to quiescence after each operation, the stepwise configuration (thorough) makes every task an explicit step".into(),
        "completion is checked by a fixed continuation (settle, activate, settle) x2 executed on a forked copy of every reached state".into(),
        "schedule dimension: the activation request and a parent synchronisation of the rolling CA as two threads under the controlled scheduler (engine E2, see coverage.interleavings); other thread combinations are C18's".into(),
    ];
    let depth = crate::report::arg_value(args, "--depth")
        .and_then(|d| d.parse().ok())
        .unwrap_or(if tier.thorough { 5 } else { 3 });
    let cap = crate::report::arg_value(args, "--cap")
        .and_then(|d| d.parse().ok())
        .unwrap_or(if tier.thorough { 1800 } else { 50 });
    let mk = |roller: &str, parent: &str, two: bool, stepwise: bool| C04Model {
        inner: C01Model { intent: Intent::default(), full_alphabet: false, two_parents: two },
        roller: roller.into(),
        roller_parent: parent.into(),
        stepwise,
        raw: false,
    };
    let mk_raw = |roller: &str, parent: &str| C04Model {
        inner: C01Model { intent: Intent::default(), full_alphabet: false, two_parents: false },
        roller: roller.into(),
        roller_parent: parent.into(),
        stepwise: false,
        raw: true,
    };
    let mut configs = vec![
        Config {
            name: "roll-ca".into(),
            build: Box::new(|| c01::build_w3(c01::world_cfg(2, 2))),
            model: mk("ca", "parent", false, false),
        },
        Config {
            name: "roll-under-ta".into(),
            build: Box::new(|| c01::build_w3(c01::world_cfg(2, 2))),
            model: mk("parent", "ta", false, false),
        },
    ];
    configs.push(Config {
        name: "roll-ca-raw-steps".into(),
        build: Box::new(|| c01::build_w3(c01::world_cfg(2, 2))),
        model: mk_raw("ca", "parent"),
    });
    // two resource classes, built in the middle of the roll (both new keys
    // certified), every exchange with either parent an operation of its own
    configs.push(Config {
        name: "roll-ca-two-classes-raw-midroll".into(),
        build: Box::new(|| {
            let mut w = c01::build_w3_two_parents(c01::world_cfg(2, 2))?;
            let o = w.apply_pumped(&Op::RollInit { ca: "ca".into() });
            if !o.ok {
                return Err(format!("RollInit failed: {:?}", o.err));
            }
            w.settle()?;
            Ok(w)
        }),
        model: C04Model {
            inner: C01Model { intent: Intent::default(), full_alphabet: false, two_parents: true },
            roller: "ca".into(),
            roller_parent: "parent".into(),
            stepwise: false,
            raw: true,
        },
    });
    if tier.thorough {
        configs.push(Config {
            name: "roll-under-ta-raw-steps".into(),
            build: Box::new(|| c01::build_w3(c01::world_cfg(2, 2))),
            model: mk_raw("parent", "ta"),
        });
        configs.push(Config {
            name: "roll-ca-two-classes".into(),
            build: Box::new(|| c01::build_w3_two_parents(c01::world_cfg(2, 2))),
            model: mk("ca", "parent", true, false),
        });
        configs.push(Config {
            name: "roll-under-ta-stepwise".into(),
            build: Box::new(|| {
                let f = c01::full_ca_res();
                World::build_w2(WorldCfg::default(), res(&f.0, &f.1, &f.2)).map_err(|e| e.to_string())
            }),
            model: mk("parent", "ta", false, true),
        });
    }
    e1run::run(
        Spec { property: "C04".into(), configs, depth, wall_cap_s: cap, procs: 16, min_states: 20 },
        &mut out,
    );
    // the schedule dimension: the activation request against a running
    // synchronisation (engine E2)
    if crate::report::arg_value(args, "--replay").is_none() {
        let inter = run_interleavings(tier, &mut out);
        if let Some(c) = out.coverage.as_object_mut() {
            c.insert("interleavings".into(), inter);
        }
    }
    out.finish()
}

//------------ interleavings of the roll steps with a running sync -----------

/// One execution: a parent synchronisation of the rolling CA (several
/// request/response exchanges, one CA command each) and the activation
/// request run as two threads under the controlled scheduler.
fn interleaving_exec(template: &std::path::Path, variant: &str, prefix: &[usize]) -> crate::e2::ExecOutcome {
    use crate::world::{ca, parent_h};
    let mut out = crate::e2::ExecOutcome::default();
    if let Err(e) = crate::e3::copy_dir(template, std::path::Path::new(".")) {
        out.violations.push(("machinery".into(), format!("copy: {e}")));
        return out;
    }
    let cfg = c01::world_cfg(100, 90);
    let mut w = match World::reopen(cfg) {
        Ok(w) => w,
        Err(e) => {
            out.violations.push(("machinery".into(), e.to_string()));
            return out;
        }
    };
    // state: roll initiated and the new key certified; then the parent
    // changes the entitlement, which the CA has not seen yet
    let setup: Vec<Op> = match variant {
        "activate-vs-sync" => vec![Op::RollInit { ca: "ca".into() }],
        _ => vec![],
    };
    for op in &setup {
        let o = w.apply_pumped(op);
        if !o.ok {
            out.violations.push(("machinery".into(), format!("{op}: {:?}", o.err)));
            return out;
        }
    }
    if let Err(e) = w.settle() {
        out.violations.push(("machinery".into(), e));
        return out;
    }
    let o = w.apply(&Op::Entitle { parent: "parent".into(), child: "ca".into(), res: crate::ops::r3("AS65000-AS65004", "10.0.0.0/15", "2001:db8::/48") });
    if !o.ok {
        out.violations.push(("machinery".into(), format!("entitle: {:?}", o.err)));
        return out;
    }
    // the CA learns about it (this creates the certificate requests for the
    // new and for the current key); sending them is what the thread does
    if let Err(e) = w.sync_parent("ca", "parent") {
        out.violations.push(("machinery".into(), format!("first sync: {e}")));
        return out;
    }
    let expected_vrps = |w: &World| -> Option<std::collections::BTreeSet<String>> {
        let view = rp::view_from_lists(w).ok()?;
        Some(rp::validate(w, &view).vrps.iter().map(|v| format!("{v:?}")).collect())
    };
    let before = expected_vrps(&w).unwrap_or_default();
    let (k1, s1, a1) = (w.krill.clone(), w.slow.clone(), w.actor.clone());
    let (k2, a2) = (w.krill.clone(), w.actor.clone());
    let bodies: Vec<Box<dyn FnOnce() -> Vec<String> + Send>> = vec![
        Box::new(move || {
            vec![match k1.ca_manager().ca_sync_parent(&ca("ca"), 0, &parent_h("parent"), &a1, &s1) {
                Ok(_) => "ok".into(),
                Err(e) => format!("err: {e}"),
            }]
        }),
        Box::new(move || {
            vec![match k2.ca_manager().ca_keyroll_activate(ca("ca"), chrono::Duration::seconds(0), &a2, &k2) {
                Ok(()) => "ok".into(),
                Err(e) => format!("err: {e}"),
            }]
        }),
    ];
    let result = crate::e2::run_schedule(bodies, prefix, 400);
    out.result = result.clone();
    if let Some(d) = &result.deadlock {
        out.violations.push(("deadlock".into(), d.clone()));
        return out;
    }
    for o in result.outputs.iter().flatten() {
        if o.starts_with("PANIC") {
            out.violations.push(("panic".into(), o.clone()));
        }
    }
    // no product may be lost at any instant: right after the two calls
    // (background tasks first, they publish) every payload is still there
    match w.pump() {
        Err(f) => out.violations.push(("fatal".into(), f)),
        Ok(_) => {
            let now = expected_vrps(&w).unwrap_or_default();
            let lost: Vec<&String> = before.iter().filter(|v| !now.contains(*v)).collect();
            // (the entitlement change itself takes 10.1.0.0/16 away: payloads there may go)
            let lost: Vec<&String> = lost.into_iter().filter(|v| !v.contains("10.1.")).collect();
            if !lost.is_empty() {
                out.violations.push(("product-lost".into(), format!("after the interleaved sync and activation these payloads are gone: {lost:?} (sync: {}, activate: {})", result.outputs[0].join(","), result.outputs[1].join(","))));
            }
            let ks = key_states(&w, "ca");
            if ks.len() != 1 || ks.keys().any(|k| k != "0") {
                out.violations.push(("class-dropped".into(), format!("the CA's resource classes are now {:?} (it had exactly class 0)", ks.keys().collect::<Vec<_>>())));
            }
        }
    }
    // and the roll finishes
    for _ in 0..2 {
        if let Err(f) = w.settle() {
            out.violations.push(("fatal".into(), f));
            return out;
        }
        let ks = key_states(&w, "ca");
        if ks.values().all(|(k, open)| k == "active" && !open) {
            break;
        }
        let _ = w.apply_pumped(&Op::RollActivate { ca: "ca".into() });
    }
    let _ = w.settle();
    let ks = key_states(&w, "ca");
    for (rcn, (kind, open)) in &ks {
        if kind != "active" || *open {
            out.violations.push(("roll-not-completed".into(), format!("class {rcn} is in state '{kind}' (open request: {open}) after the interleaving, settle + activate + settle twice")));
        }
    }
    if let Err(e) = rp::full_check(&w) {
        out.violations.push(("rp".into(), format!("{:?}", e.iter().take(3).collect::<Vec<_>>())));
    }
    out.outcome = format!("sync: {} | activate: {}", result.outputs[0].join(",").lines().next().unwrap_or(""), result.outputs[1].join(",").lines().next().unwrap_or(""));
    out
}

/// Explores the interleavings; returns findings and a coverage record.
pub fn run_interleavings(tier: &Tier, out: &mut Outcome) -> serde_json::Value {
    let root = crate::e1run::scratch_root().with_extension("c04i");
    let _guard = crate::e1run::ScratchGuard(root.clone());
    let _ = std::fs::remove_dir_all(&root);
    std::fs::create_dir_all(&root).unwrap();
    let template = root.join("template");
    std::fs::create_dir_all(&template).unwrap();
    let (built, _) = crate::e3::fork_in_dir(&template, || {
        c01::build_w3(c01::world_cfg(100, 90)).and_then(|mut w| {
            let o = w.apply_pumped(&Op::Roa { ca: "ca".into(), add: vec![c01::ROA_A.into(), c01::ROA_B.into()], del: vec![] });
            if !o.ok {
                return Err(format!("{:?}", o.err));
            }
            w.settle()?;
            Ok(crate::keys::persistent_used())
        })
    });
    let Some(Ok(keys_used)) = built else {
        out.machinery_errors.push(format!("interleavings: template build failed: {built:?}"));
        return serde_json::json!({});
    };
    crate::keys::skip(keys_used + 8);
    let bound = if tier.thorough { 2 } else { 1 };
    let xroot = root.join("x");
    std::fs::create_dir_all(&xroot).unwrap();
    let tpl = template.clone();
    let stats = crate::e2::explore(&xroot, bound, if tier.thorough { 20_000 } else { 1_500 }, 16, std::time::Duration::from_secs(if tier.thorough { 900 } else { 40 }), false, &|prefix| {
        interleaving_exec(&tpl, "activate-vs-sync", prefix)
    });
    for m in &stats.machinery {
        out.machinery_errors.push(format!("interleavings: {m}"));
    }
    let mut seen = std::collections::BTreeSet::new();
    for (prefix, kind, detail, result) in &stats.violations {
        if kind == "machinery" {
            out.machinery_errors.push(format!("interleavings: {detail}"));
            continue;
        }
        let key = format!("{kind}|{}", crate::e1::normalize(detail));
        if !seen.insert(key.clone()) {
            continue;
        }
        out.findings.push(crate::report::Finding {
            signature: format!("{key} @ interleaving=activate-vs-sync"),
            text: format!("[interleaving activate-vs-sync] {kind}: {detail}; schedule {prefix:?}"),
            replay: serde_json::json!({"part": "interleaving", "variant": "activate-vs-sync", "schedule": prefix, "trace": result.trace, "outputs": result.outputs, "kind": kind, "detail": detail}),
        });
    }
    serde_json::json!({
        "variant": "activate-vs-sync: a parent synchronisation of the rolling CA (one CA command per exchange) and the activation request as two threads",
        "preemption_bound": bound, "schedules": stats.executions, "choice_points": stats.choice_points,
        "distinct_outcomes": stats.distinct_outcomes, "cap_hit": stats.capped, "schedules_not_followed_exactly": stats.diverged,
    })
}
