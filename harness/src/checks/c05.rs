//! C05 — Configuration changes are validated against held resources, all or
//! nothing. Bounded-exhaustive request enumeration (E4) over a small set of
//! CA states, every request executed on a forked copy of the state.

use std::collections::{BTreeMap, BTreeSet};

use krill::api::admin::{AddChildRequest, UpdateChildRequest};
use krill::api::aspa::{AspaDefinition, AspaDefinitionUpdates, AspaProvidersUpdate};
use krill::api::bgpsec::{BgpSecAsnKey, BgpSecDefinition, BgpSecDefinitionUpdates};
use krill::api::roa::{RoaConfiguration, RoaConfigurationUpdates, RoaPayload};
use rpki::repository::resources::ResourceSet;
use serde::{Deserialize, Serialize};
use serde_json::{Value, json};

use crate::checks::c01;
use crate::checks::c04::what_if;
use crate::ops::{Op, asn, r3, router_csr, rset};
use crate::report::{Finding, Outcome, Tier};
use crate::world::{World, ca, child_h, res};

#[derive(Clone, Debug, Serialize, Deserialize, PartialEq, Eq, Hash, PartialOrd, Ord)]
pub struct RoaEntry {
    pub prefix: String,
    pub max_length: Option<u8>,
    pub asn: u32,
    pub comment: Option<String>,
}

impl RoaEntry {
    fn new(prefix: &str, max_length: Option<u8>, asn: u32) -> Self {
        RoaEntry { prefix: prefix.into(), max_length, asn, comment: None }
    }
    fn payload(&self) -> RoaPayload {
        let mut v = json!({"asn": self.asn, "prefix": self.prefix});
        if let Some(m) = self.max_length {
            v["max_length"] = json!(m);
        }
        serde_json::from_value(v).expect("payload json")
    }
    fn config(&self) -> RoaConfiguration {
        RoaConfiguration { payload: self.payload(), comment: self.comment.clone() }
    }
    fn plen(&self) -> u8 {
        self.prefix.split_once('/').unwrap().1.parse().unwrap()
    }
    fn is_v6(&self) -> bool {
        self.prefix.contains(':')
    }
    /// canonical key: explicit max length
    fn key(&self) -> String {
        format!("{}-{} => {}", self.prefix, self.max_length.unwrap_or(self.plen()), self.asn)
    }
}

#[derive(Clone, Debug, Serialize, Deserialize)]
pub enum Req {
    Roa { add: Vec<RoaEntry>, del: Vec<RoaEntry> },
    AspaSet { customer: u32, providers: Vec<u32> },
    AspaDel { customer: u32 },
    AspaProviders { customer: u32, add: Vec<u32>, del: Vec<u32> },
    BgpsecAdd { asn: u32, csr: usize, corrupt: bool },
    BgpsecDel { asn: u32, csr: usize },
    ChildAdd { handle: String, res: crate::ops::Res3 },
    ChildUpdate { handle: String, res: crate::ops::Res3 },
}

#[derive(Clone, Debug, PartialEq)]
enum Expect {
    Accept,
    Refuse,
    /// the property text does not determine accept/refuse; only atomicity
    Either,
}

/// Configured state as seen through the API.
#[derive(Clone, Debug, Serialize, Deserialize, PartialEq)]
struct Snapshot {
    roas: BTreeMap<String, Option<String>>,
    aspas: BTreeMap<u32, Vec<u32>>,
    bgpsec: BTreeSet<(u32, String)>,
    children: BTreeMap<String, String>,
    held: String,
    repo: BTreeMap<String, String>,
    ca_objects: String,
    queue: Vec<String>,
    history_len: usize,
}

fn snapshot(w: &World) -> Snapshot {
    let c = w.krill.ca_manager().get_ca(&ca("ca")).unwrap();
    let mut roas = BTreeMap::new();
    for cr in c.configured_roas() {
        let p = cr.roa_configuration.payload.into_explicit_max_length();
        roas.insert(p.to_string(), cr.roa_configuration.comment.clone());
    }
    let mut aspas = BTreeMap::new();
    for d in c.aspas_definitions_show().as_slice() {
        let mut p: Vec<u32> = d.providers.iter().map(|a| a.into_u32()).collect();
        p.sort();
        aspas.insert(d.customer.into_u32(), p);
    }
    let mut bgpsec = BTreeSet::new();
    for d in c.bgpsec_definitions_show().as_slice() {
        bgpsec.insert((d.asn.into_u32(), d.key_identifier.to_string()));
    }
    let mut children = BTreeMap::new();
    for ch in c.children() {
        if let Ok(d) = c.get_child(ch) {
            children.insert(ch.to_string(), d.resources.to_string());
        }
    }
    let repo: BTreeMap<String, String> = crate::rp::view_from_lists(w)
        .unwrap_or_default()
        .into_iter()
        .map(|(k, v)| (k, format!("{:016x}", crate::fingerprint::h64(&v, 3))))
        .collect();
    use krill::commons::storage::Ident;
    let kv = w.krill.storage().open(krill::constants::CA_OBJECTS_NS).unwrap();
    let co: Option<Value> = kv.get(None, &Ident::boxed_from_string("ca.json".into()).unwrap()).unwrap_or(None);
    let hl = {
        let kv = w.krill.storage().open(krill::constants::CASERVER_NS).unwrap();
        kv.keys(Some(&Ident::boxed_from_string("ca".into()).unwrap()), "command-").map(|k| k.len()).unwrap_or(0)
    };
    Snapshot {
        roas,
        aspas,
        bgpsec,
        children,
        held: c.all_resources().to_string(),
        repo,
        ca_objects: co.map(|v| v.to_string()).unwrap_or_default(),
        queue: w.pending_tasks().into_iter().map(|t| t.1).collect(),
        history_len: hl,
    }
}

fn held(w: &World) -> ResourceSet {
    w.krill.ca_manager().get_ca(&ca("ca")).unwrap().all_resources()
}

fn prefix_held(h: &ResourceSet, prefix: &str) -> bool {
    let set = if prefix.contains(':') {
        ResourceSet::from_strs("", "", prefix)
    } else {
        ResourceSet::from_strs("", prefix, "")
    };
    set.map(|s| h.contains(&s)).unwrap_or(false)
}

fn asn_held(h: &ResourceSet, a: u32) -> bool {
    ResourceSet::from_strs(&format!("AS{a}"), "", "")
        .map(|s| h.contains(&s))
        .unwrap_or(false)
}

/// The reference predicate, written from the property text.
fn expect(req: &Req, before: &Snapshot, h: &ResourceSet) -> Expect {
    match req {
        Req::Roa { add, del } => {
            let mut refuse = false;
            let mut either = false;
            let add_keys: Vec<String> = add.iter().map(|a| a.key()).collect();
            let del_keys: Vec<String> = del.iter().map(|a| a.key()).collect();
            // entries that occur more than once in the delta (duplicates,
            // add+remove of the same authorisation): whether they count as
            // "already present" / "not present" is not determined by the
            // statement; the not-held and max-length reasons still apply
            let count = |k: &String| {
                add_keys.iter().chain(del_keys.iter()).filter(|x| *x == k).count()
            };
            for a in add {
                let fam_max = if a.is_v6() { 128 } else { 32 };
                if let Some(m) = a.max_length
                    && (m < a.plen() || m > fam_max)
                {
                    refuse = true;
                }
                if !prefix_held(h, &a.prefix) {
                    refuse = true;
                }
                if count(&a.key()) > 1 {
                    either = true;
                } else if let Some(existing_comment) = before.roas.get(&a.key())
                    && existing_comment == &a.comment
                {
                    refuse = true;
                }
            }
            for d in del {
                if count(&d.key()) > 1 {
                    either = true;
                } else if !before.roas.contains_key(&d.key()) {
                    refuse = true;
                }
            }
            if refuse {
                // a refusal reason stands whatever the undetermined part says
                Expect::Refuse
            } else if either {
                Expect::Either
            } else {
                Expect::Accept
            }
        }
        Req::AspaSet { customer, providers } => {
            let mut p = providers.clone();
            p.sort();
            p.dedup();
            if !asn_held(h, *customer)
                || providers.is_empty()
                || p.len() != providers.len()
                || providers.contains(customer)
            {
                Expect::Refuse
            } else if before.aspas.get(customer).map(|e| {
                let mut q = providers.clone();
                q.sort();
                e == &q
            }).unwrap_or(false) {
                Expect::Either // identical replacement: no-op or accept
            } else {
                Expect::Accept
            }
        }
        Req::AspaDel { customer } => {
            if before.aspas.contains_key(customer) { Expect::Accept } else { Expect::Refuse }
        }
        Req::AspaProviders { customer, add, del } => {
            // provider updates are lenient set operations on the existing
            // (or empty) provider list; what matters is the resulting list
            let existing: Vec<u32> = before.aspas.get(customer).cloned().unwrap_or_default();
            let mut result: Vec<u32> = existing.iter().filter(|x| !del.contains(x)).cloned().collect();
            for a in add {
                if !result.contains(a) {
                    result.push(*a);
                }
            }
            result.sort();
            if result == existing {
                return Expect::Either; // no effect
            }
            if result.is_empty() {
                return Expect::Accept; // removes the definition
            }
            if !asn_held(h, *customer) || result.contains(customer) {
                return Expect::Refuse;
            }
            Expect::Accept
        }
        Req::BgpsecAdd { asn: a, csr, corrupt } => {
            if *corrupt || !asn_held(h, *a) {
                Expect::Refuse
            } else {
                let ki = router_csr(*csr).public_key().key_identifier().to_string();
                if before.bgpsec.contains(&(*a, ki)) { Expect::Either } else { Expect::Accept }
            }
        }
        Req::BgpsecDel { asn: a, csr } => {
            let ki = router_csr(*csr).public_key().key_identifier().to_string();
            if before.bgpsec.contains(&(*a, ki)) { Expect::Accept } else { Expect::Refuse }
        }
        Req::ChildAdd { handle, res } => {
            let r = rset(res);
            if r.is_empty() || !h.contains(&r) || before.children.contains_key(handle) {
                Expect::Refuse
            } else {
                Expect::Accept
            }
        }
        Req::ChildUpdate { handle, res } => {
            let r = rset(res);
            if !before.children.contains_key(handle) || !h.contains(&r) {
                Expect::Refuse
            } else if r.is_empty() {
                // "entitled to nothing": refused for a new child; for an
                // existing child C02 explicitly lists shrink-to-nothing
                // histories, so the statement is read as not deciding this
                Expect::Either
            } else if before.children.get(handle) == Some(&r.to_string()) {
                Expect::Either
            } else {
                Expect::Accept
            }
        }
    }
}

fn corrupt_csr(idx: usize) -> Option<rpki::ca::csr::BgpsecCsr> {
    // flip a bit in the signature (last byte): still decodes, no longer verifies
    let mut bytes = crate::ops::ROUTER_CSRS[idx].to_vec();
    let n = bytes.len();
    bytes[n - 1] ^= 0x01;
    rpki::ca::csr::BgpsecCsr::decode(bytes.as_slice()).ok()
}

fn execute(w: &mut World, req: &Req) -> Result<(), String> {
    let cm = w.krill.ca_manager();
    let r = match req {
        Req::Roa { add, del } => cm.ca_routes_update(
            ca("ca"),
            RoaConfigurationUpdates {
                added: add.iter().map(|a| a.config()).collect(),
                removed: del.iter().map(|a| a.payload()).collect(),
            },
            &w.actor,
            &w.krill,
        ),
        Req::AspaSet { customer, providers } => cm.ca_aspas_definitions_update(
            ca("ca"),
            AspaDefinitionUpdates {
                add_or_replace: vec![AspaDefinition {
                    customer: asn(*customer),
                    providers: providers.iter().map(|p| asn(*p)).collect(),
                }],
                remove: vec![],
            },
            &w.actor,
            &w.krill,
        ),
        Req::AspaDel { customer } => cm.ca_aspas_definitions_update(
            ca("ca"),
            AspaDefinitionUpdates { add_or_replace: vec![], remove: vec![asn(*customer)] },
            &w.actor,
            &w.krill,
        ),
        Req::AspaProviders { customer, add, del } => cm.ca_aspas_update_aspa_providers(
            ca("ca"),
            asn(*customer),
            AspaProvidersUpdate {
                added: add.iter().map(|p| asn(*p)).collect(),
                removed: del.iter().map(|p| asn(*p)).collect(),
            },
            &w.actor,
            &w.krill,
        ),
        Req::BgpsecAdd { asn: a, csr, corrupt } => {
            let csr = if *corrupt {
                match corrupt_csr(*csr) {
                    Some(c) => c,
                    None => return Err("corrupted CSR does not even decode".into()),
                }
            } else {
                router_csr(*csr)
            };
            cm.ca_bgpsec_definitions_update(
                ca("ca"),
                BgpSecDefinitionUpdates { add: vec![BgpSecDefinition { asn: asn(*a), csr }], remove: vec![] },
                &w.actor,
                &w.krill,
            )
        }
        Req::BgpsecDel { asn: a, csr } => cm.ca_bgpsec_definitions_update(
            ca("ca"),
            BgpSecDefinitionUpdates {
                add: vec![],
                remove: vec![BgpSecAsnKey {
                    asn: asn(*a),
                    key: router_csr(*csr).public_key().key_identifier(),
                }],
            },
            &w.actor,
            &w.krill,
        ),
        Req::ChildAdd { handle, res } => {
            let id_cert = {
                let c = cm.get_ca(&ca("gc")).unwrap();
                c.child_request().validate().unwrap()
            };
            cm.ca_add_child(
                &ca("ca"),
                AddChildRequest { handle: child_h(handle), resources: rset(res), id_cert },
                &w.actor,
                &w.krill,
            )
            .map(|_| ())
        }
        Req::ChildUpdate { handle, res } => cm.ca_child_update(
            &ca("ca"),
            child_h(handle),
            UpdateChildRequest::resources(rset(res)),
            &w.actor,
            &w.krill,
        ),
    };
    r.map_err(|e| e.to_string())
}

/// What a full application of the request would make of the configuration.
fn applied(before: &Snapshot, req: &Req) -> Snapshot {
    let mut s = before.clone();
    match req {
        Req::Roa { add, del } => {
            for d in del {
                s.roas.remove(&d.key());
            }
            for a in add {
                s.roas.insert(a.key(), a.comment.clone());
            }
        }
        Req::AspaSet { customer, providers } => {
            let mut p = providers.clone();
            p.sort();
            s.aspas.insert(*customer, p);
        }
        Req::AspaDel { customer } => {
            s.aspas.remove(customer);
        }
        Req::AspaProviders { customer, add, del } => {
            let e = s.aspas.entry(*customer).or_default();
            e.retain(|x| !del.contains(x));
            for a in add {
                if !e.contains(a) {
                    e.push(*a);
                }
            }
            e.sort();
            if e.is_empty() {
                s.aspas.remove(customer);
            }
        }
        Req::BgpsecAdd { asn: a, csr, .. } => {
            s.bgpsec.insert((*a, router_csr(*csr).public_key().key_identifier().to_string()));
        }
        Req::BgpsecDel { asn: a, csr } => {
            s.bgpsec.remove(&(*a, router_csr(*csr).public_key().key_identifier().to_string()));
        }
        Req::ChildAdd { handle, res } => {
            s.children.insert(handle.clone(), rset(res).to_string());
        }
        Req::ChildUpdate { handle, res } => {
            s.children.insert(handle.clone(), rset(res).to_string());
        }
    }
    s
}

fn config_part(s: &Snapshot) -> (BTreeMap<String, Option<String>>, BTreeMap<u32, Vec<u32>>, BTreeSet<(u32, String)>, BTreeMap<String, String>) {
    (s.roas.clone(), s.aspas.clone(), s.bgpsec.clone(), s.children.clone())
}

/// Runs one request on a forked copy; returns a violation description.
fn run_case(w: &mut World, req: &Req) -> Result<(Option<(String, String)>, String, String), String> {
    let before = snapshot(w);
    let h = held(w);
    let exp = expect(req, &before, &h);
    let req2 = req.clone();
    let before2 = before.clone();
    let exp2 = exp.clone();
    let res = what_if(w, move |w| {
        let r = execute(w, &req2);
        let after = snapshot(w);
        let mut v = Vec::new();
        let outcome = if r.is_ok() { "accepted" } else { "refused" };
        match (&exp2, r.is_ok()) {
            (Expect::Accept, false) => v.push((
                "wrongly-refused".to_string(),
                format!("expected acceptance, got: {}", r.clone().unwrap_err().replace('\n', " ")),
            )),
            (Expect::Refuse, true) => {
                v.push(("wrongly-accepted".to_string(), "expected refusal, request was accepted".to_string()))
            }
            _ => {}
        }
        if r.is_err() {
            // nothing but the audit record may have changed
            let mut b = before2.clone();
            b.history_len = after.history_len;
            if b != after {
                let what = if config_part(&b) != config_part(&after) {
                    "configuration"
                } else if b.repo != after.repo {
                    "repository content"
                } else if b.ca_objects != after.ca_objects {
                    "published-object set"
                } else if b.queue != after.queue {
                    "task queue"
                } else {
                    "held resources"
                };
                v.push(("refused-but-changed".to_string(), format!("a refused request changed the {what}")));
            }
            if after.history_len > before2.history_len + 1 {
                v.push(("refused-but-changed".to_string(), "a refused request left more than one audit record".to_string()));
            }
        } else {
            // whole delta applied (or, for undetermined no-op cases, nothing)
            let want = applied(&before2, &req2);
            let cp = config_part(&after);
            if cp != config_part(&want) && !(exp2 == Expect::Either && cp == config_part(&before2)) {
                v.push((
                    "partially-applied".to_string(),
                    format!(
                        "accepted request not applied as a whole: roas {:?} aspas {:?} bgpsec {} children {:?}",
                        after.roas.keys().collect::<Vec<_>>(), after.aspas, after.bgpsec.len(), after.children
                    ),
                ));
            }
        }
        v.push(("#outcome".to_string(), outcome.to_string()));
        v
    })?;
    let mut outcome = String::new();
    let mut viol = None;
    for (k, d) in res {
        if k == "#outcome" {
            outcome = d;
        } else if viol.is_none() {
            viol = Some((k, d));
        }
    }
    Ok((viol, outcome, format!("{exp:?}")))
}

fn roa_menu(state_has_a: bool) -> (Vec<RoaEntry>, Vec<RoaEntry>) {
    let mut adds = vec![
        RoaEntry::new("10.0.2.0/24", None, 65000),          // held, implicit
        RoaEntry::new("10.0.3.0/24", Some(28), 65000),      // held, explicit valid
        RoaEntry::new("10.0.2.0/24", Some(24), 65000),      // same as first, explicit form
        RoaEntry::new("10.0.4.0/24", Some(20), 65000),      // maxlen < prefix length
        RoaEntry::new("10.0.4.0/24", Some(33), 65000),      // maxlen > 32
        RoaEntry::new("192.168.0.0/24", None, 65000),       // not held
        RoaEntry::new("2001:db8::/48", None, 65000),        // held v6 (if held)
        RoaEntry::new("2001:db8::/48", Some(129), 65000),   // v6 maxlen 129
        RoaEntry::new("10.0.5.0/24", None, 0),              // AS0
        RoaEntry::new("10.0.0.0/24", None, 65000),          // = ROA_A: present in some states
    ];
    let mut with_comment = RoaEntry::new("10.0.0.0/24", None, 65000);
    with_comment.comment = Some("new comment".into());
    adds.push(with_comment);
    let _ = state_has_a;
    let dels = vec![
        RoaEntry::new("10.0.0.0/24", None, 65000),      // present in some states
        RoaEntry::new("10.0.0.0/24", Some(24), 65000),  // same, explicit
        RoaEntry::new("10.9.0.0/24", None, 65000),      // absent
    ];
    (adds, dels)
}

fn requests(thorough: bool) -> Vec<Req> {
    let mut reqs = Vec::new();
    let (adds, dels) = roa_menu(true);
    // all multisets of <= 2 (4 thorough) entries from adds ∪ dels
    #[derive(Clone)]
    enum E { A(RoaEntry), D(RoaEntry) }
    let menu: Vec<E> = adds.iter().cloned().map(E::A).chain(dels.iter().cloned().map(E::D)).collect();
    let max = if thorough { 4 } else { 2 };
    let n = menu.len();
    let mut idx: Vec<Vec<usize>> = Vec::new();
    // all non-decreasing index sequences of length 1..=max (= multisets)
    fn extend(from: usize, n: usize, left: usize, cur: &mut Vec<usize>, out: &mut Vec<Vec<usize>>) {
        if !cur.is_empty() {
            out.push(cur.clone());
        }
        if left == 0 {
            return;
        }
        for i in from..n {
            cur.push(i);
            extend(i, n, left - 1, cur, out);
            cur.pop();
        }
    }
    extend(0, n, max, &mut Vec::new(), &mut idx);
    for sel in idx {
        let mut add = Vec::new();
        let mut del = Vec::new();
        for i in sel {
            match &menu[i] {
                E::A(e) => add.push(e.clone()),
                E::D(e) => del.push(e.clone()),
            }
        }
        reqs.push(Req::Roa { add, del });
    }
    // ASPA
    for customer in [65000u32, 65009] {
        for providers in [vec![], vec![65001], vec![65001, 65001], vec![customer], vec![65001, 65002], vec![65002, 65001]] {
            reqs.push(Req::AspaSet { customer, providers });
        }
        reqs.push(Req::AspaDel { customer });
        for (add, del) in [
            (vec![65003], vec![]),
            (vec![], vec![65001]),
            (vec![65001], vec![]),
            (vec![customer], vec![]),
            (vec![65003, 65003], vec![]),
            (vec![], vec![65007]),
            (vec![65004], vec![65001]),
        ] {
            reqs.push(Req::AspaProviders { customer, add, del });
        }
    }
    // BGPsec
    for a in [65000u32, 65009] {
        for csr in [0usize, 1] {
            reqs.push(Req::BgpsecAdd { asn: a, csr, corrupt: false });
            reqs.push(Req::BgpsecAdd { asn: a, csr, corrupt: true });
            reqs.push(Req::BgpsecDel { asn: a, csr });
        }
    }
    // children
    for handle in ["gc", "newchild"] {
        for r in [
            r3("", "", ""),
            r3("AS65001", "10.0.0.0/24", ""),
            r3("AS65000-AS65001", "10.0.0.0/16", ""),
            r3("", "192.168.0.0/16", ""),
            r3("AS65009", "", ""),
            r3("", "10.0.0.0/24, 192.168.0.0/24", ""),
        ] {
            reqs.push(Req::ChildAdd { handle: handle.into(), res: r.clone() });
            reqs.push(Req::ChildUpdate { handle: handle.into(), res: r });
        }
    }
    reqs
}

fn states() -> Vec<(&'static str, Box<dyn Fn() -> Result<World, String>>)> {
    let base = |agg: usize, deagg: usize| -> Result<World, String> {
        c01::build_w3(c01::world_cfg(agg, deagg))
    };
    let with = move |agg: usize, deagg: usize, ops: Vec<Op>| -> Result<World, String> {
        let mut w = base(agg, deagg)?;
        for op in &ops {
            let o = w.apply_pumped(op);
            if !o.ok {
                return Err(format!("state set-up op {op} failed: {:?}", o.err));
            }
        }
        w.settle()?;
        Ok(w)
    };
    let c = || "ca".to_string();
    vec![
        ("empty", Box::new(move || with(100, 90, vec![]))),
        ("configured", Box::new(move || with(100, 90, vec![
            Op::Roa { ca: c(), add: vec![c01::ROA_A.into(), c01::ROA_B.into()], del: vec![] },
            Op::AspaSet { ca: c(), customer: 65000, providers: vec![65001, 65002] },
            Op::BgpsecAdd { ca: c(), asn: 65000, csr: 0 },
        ]))),
        ("configured-then-shrunk", Box::new(move || with(100, 90, vec![
            Op::Roa { ca: c(), add: vec![c01::ROA_A.into(), c01::ROA_C.into(), c01::ROA_D.into()], del: vec![] },
            Op::AspaSet { ca: c(), customer: 65000, providers: vec![65001] },
            Op::Entitle { parent: "parent".into(), child: c(), res: r3("AS65000", "10.0.0.0/16", "") },
        ]))),
        // the customer / router AS of an existing definition is no longer held
        ("configured-then-as-lost", Box::new(move || with(100, 90, vec![
            Op::Roa { ca: c(), add: vec![c01::ROA_A.into()], del: vec![] },
            Op::AspaSet { ca: c(), customer: 65000, providers: vec![65001] },
            Op::BgpsecAdd { ca: c(), asn: 65000, csr: 0 },
            Op::Entitle { parent: "parent".into(), child: c(), res: r3("AS65001-AS65005", "10.0.0.0/15", "2001:db8::/48") },
        ]))),
        ("aggregated", Box::new(move || with(2, 2, vec![
            Op::Roa { ca: c(), add: vec![c01::ROA_A.into(), c01::ROA_B.into(), c01::ROA_C.into()], del: vec![] },
        ]))),
        ("rolling", Box::new(move || with(100, 90, vec![
            Op::Roa { ca: c(), add: vec![c01::ROA_A.into()], del: vec![] },
            Op::RollInit { ca: c() },
        ]))),
        // the old key still publishes (activation done, revocation pending or done)
        ("rolled", Box::new(move || with(100, 90, vec![
            Op::Roa { ca: c(), add: vec![c01::ROA_A.into()], del: vec![] },
            Op::BgpsecAdd { ca: c(), asn: 65000, csr: 0 },
            Op::RollInit { ca: c() },
            Op::RollActivate { ca: c() },
        ]))),
        // two resource classes (two parents) holding overlapping resources
        ("two-parents", Box::new(move || {
            let mut w = c01::build_w3_two_parents(c01::world_cfg(100, 90))?;
            for op in [
                Op::Roa { ca: c(), add: vec![c01::ROA_A.into()], del: vec![] },
                Op::AspaSet { ca: c(), customer: 65000, providers: vec![65001] },
                Op::Entitle { parent: "parent".into(), child: c(), res: r3("", "10.1.0.0/16", "2001:db8::/48") },
            ] {
                let o = w.apply_pumped(&op);
                if !o.ok {
                    return Err(format!("state set-up op {op} failed: {:?}", o.err));
                }
            }
            w.settle()?;
            Ok(w)
        })),
    ]
}

pub fn run(tier: &Tier, _args: &[String]) -> i32 {
    let mut out = Outcome::new("C05", tier, "model_checking");
    out.assumptions = vec![
        "accept/refuse is 'Either' (only atomicity checked) where the property text does not determine it: duplicates inside one delta, add+remove of the same entry, identical replacement, provider updates that empty the list / re-add a present provider / remove an absent one".into(),
        "request menus are finite (listed in coverage.rule); every request is executed on a forked copy of each listed CA state".into(),
    ];
    let reqs = requests(tier.thorough);
    let root = crate::e1run::scratch_root();
    let _guard = crate::e1run::ScratchGuard(root.clone());
    let _ = std::fs::remove_dir_all(&root);
    std::fs::create_dir_all(&root).unwrap();
    let mut evaluations = 0u64;
    let mut outcomes: BTreeMap<String, u64> = BTreeMap::new();
    let mut samples = Vec::new();
    let procs = 16usize;
    for (si, (sname, build)) in states().into_iter().enumerate() {
        // one worker process per slice; each builds the state once
        let mut pids = Vec::new();
        for k in 0..procs {
            let dir = root.join(format!("s{si}k{k}"));
            std::fs::create_dir_all(&dir).unwrap();
            let outf = root.join(format!("s{si}k{k}.json"));
            use std::io::Write;
            let _ = std::io::stdout().flush();
            let pid = unsafe { libc::fork() };
            if pid == 0 {
                std::env::set_current_dir(&dir).unwrap();
                let mut results: Vec<Value> = Vec::new();
                let r = std::panic::catch_unwind(std::panic::AssertUnwindSafe(|| {
                    let mut w = build().expect("state build");
                    for (i, req) in reqs.iter().enumerate() {
                        if i % procs != k {
                            continue;
                        }
                        match run_case(&mut w, req) {
                            Ok((None, outcome, exp)) => results.push(json!({"i": i, "ok": true, "outcome": outcome, "exp": exp})),
                            Ok((Some((kind, detail)), outcome, exp)) => results.push(
                                json!({"i": i, "ok": false, "kind": kind, "detail": detail, "outcome": outcome, "exp": exp}),
                            ),
                            Err(e) => results.push(json!({"i": i, "machinery": e})),
                        }
                    }
                }));
                if r.is_err() {
                    results.push(json!({"machinery": "worker panicked"}));
                }
                let _ = std::fs::write(&outf, serde_json::to_vec(&results).unwrap());
                unsafe { libc::_exit(0) };
            }
            pids.push((pid, outf));
        }
        for (pid, outf) in pids {
            let mut st = 0;
            unsafe { libc::waitpid(pid, &mut st, 0) };
            let Ok(bytes) = std::fs::read(&outf) else {
                out.machinery_errors.push(format!("state {sname}: worker produced no result"));
                continue;
            };
            let results: Vec<Value> = serde_json::from_slice(&bytes).unwrap_or_default();
            for r in results {
                if let Some(m) = r.get("machinery") {
                    out.machinery_errors.push(format!("state {sname}: {m}"));
                    continue;
                }
                evaluations += 1;
                let i = r["i"].as_u64().unwrap() as usize;
                if r["ok"].as_bool() == Some(true) {
                    *outcomes.entry(format!(
                        "{sname}: expected {} -> {}",
                        r["exp"].as_str().unwrap_or(""), r["outcome"].as_str().unwrap_or("")
                    )).or_default() += 1;
                    if samples.len() < 8 && i % 37 == 0 {
                        samples.push(json!({"state": sname, "request": reqs[i]}));
                    }
                } else {
                    let kind = r["kind"].as_str().unwrap_or("").to_string();
                    let detail = r["detail"].as_str().unwrap_or("").to_string();
                    out.findings.push(Finding {
                        signature: format!(
                            "{kind}|{} @ state={sname} req={}",
                            crate::e1::normalize(&detail),
                            serde_json::to_string(&reqs[i]).unwrap()
                        ),
                        text: format!(
                            "[state {sname}] {kind}: {detail}; request={}",
                            serde_json::to_string(&reqs[i]).unwrap()
                        ),
                        replay: json!({"state": sname, "request": reqs[i], "kind": kind, "detail": detail}),
                    });
                }
            }
        }
    }
    let distinct = reqs.len() as u64 * 6;
    out.coverage = json!({
        "evaluations": evaluations,
        "distinct_nontrivial": distinct,
        "states": states().len(),
        "transitions": evaluations,
        "traces_validated_against_impl": evaluations,
        "rule": "every request of the finite menus (ROA deltas = all multisets of <=2 (quick) / <=4 (thorough) entries out of 11 additions and 3 removals; ASPA set/delete/provider updates; BGPsec add (valid and corrupted CSR)/delete; child add/update with 6 resource sets x 2 handles) x 8 CA states (empty, configured, configured-then-shrunk, configured-then-AS-lost, aggregated, rolling, rolled, two parents); each executed on a forked copy; non-trivial = every case (each has an accept/refuse expectation and a before/after comparison)",
        "samples": samples,
        "exhaustive": true,
        "outcomes": outcomes,
        "requests_per_state": reqs.len(),
    });
    let _ = res("", "", "");
    out.finish()
}
