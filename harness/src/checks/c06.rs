//! C06 — State rebuilt from the audit log equals the live state.

use std::sync::atomic::Ordering;

use krill::commons::eventsourcing::{Aggregate, AggregateStore};
use krill::commons::storage::Ident;
use krill::server::ca::CertAuth;
use krill::server::pubd::RepositoryAccess;
use krill::server::taproxy::TrustAnchorProxy;
use krill::tasigner::TrustAnchorSigner;
use rpki::ca::idexchange::MyHandle;
use serde_json::Value;

use crate::checks::c01::{self, C01Model, Intent};
use crate::checks::c04::what_if;
use crate::e1::{Header, Model};
use crate::e1run::{self, Config, Spec};
use crate::ops::{Op, OpOutcome, r3};
use crate::report::{Outcome, Tier};
use crate::world::World;

/// The two wall-clock fields the property names as unobservable.
pub const MASKED_FIELDS: &[&str] = &["last_key_change", "since"];

fn mask_clock(v: &Value) -> Value {
    match v {
        Value::Object(m) => {
            let mut keys: Vec<&String> = m.keys().collect();
            keys.sort();
            let mut out = serde_json::Map::new();
            for k in keys {
                if MASKED_FIELDS.contains(&k.as_str()) {
                    continue;
                }
                out.insert(k.clone(), mask_clock(&m[k]));
            }
            Value::Object(out)
        }
        Value::Array(a) => Value::Array(a.iter().map(mask_clock).collect()),
        other => other.clone(),
    }
}

/// JSON of every aggregate of a store type as loaded by a *fresh* store
/// instance (no cache): snapshot if present, then later commands.
fn fresh_aggregates<A: Aggregate + serde::Serialize>(
    w: &World, ns: &Ident,
) -> Result<Vec<(String, Value)>, String> {
    let store = AggregateStore::<A>::create(w.krill.storage(), ns, false)
        .map_err(|e| format!("cannot open store {ns}: {e}"))?;
    let mut res = Vec::new();
    let mut handles: Vec<MyHandle> =
        store.list().map_err(|e| format!("cannot list {ns}: {e}"))?;
    handles.sort_by_key(|h| h.to_string());
    for h in handles {
        let agg = store
            .get_latest(&h)
            .map_err(|e| format!("replay of {ns}/{h} failed: {e}"))?;
        res.push((
            h.to_string(),
            mask_clock(&serde_json::to_value(agg.as_ref()).unwrap()),
        ));
    }
    Ok(res)
}

pub fn diff_path_pub(a: &Value, b: &Value, path: &str, out: &mut Vec<String>) {
    diff_path(a, b, path, out)
}

fn diff_path(a: &Value, b: &Value, path: &str, out: &mut Vec<String>) {
    if out.len() > 3 {
        return;
    }
    match (a, b) {
        (Value::Object(x), Value::Object(y)) => {
            for (k, v) in x {
                match y.get(k) {
                    Some(v2) => diff_path(v, v2, &format!("{path}/{k}"), out),
                    None => out.push(format!("{path}/{k} only in first")),
                }
            }
            for k in y.keys() {
                if !x.contains_key(k) {
                    out.push(format!("{path}/{k} only in second"));
                }
            }
        }
        (Value::Array(x), Value::Array(y)) if x.len() == y.len() => {
            for (i, (v, v2)) in x.iter().zip(y.iter()).enumerate() {
                diff_path(v, v2, &format!("{path}[{i}]"), out);
            }
        }
        _ => {
            if a != b {
                let s = |v: &Value| v.to_string().chars().take(80).collect::<String>();
                out.push(format!("{path}: {} vs {}", s(a), s(b)));
            }
        }
    }
}

/// A JSON list (or the list inside a one-field object) with its elements in
/// a canonical order.
fn sorted_list(v: Value) -> Value {
    match v {
        Value::Array(mut a) => {
            a.sort_by_cached_key(|x| x.to_string());
            Value::Array(a)
        }
        Value::Object(m) => Value::Object(m.into_iter().map(|(k, x)| (k, sorted_list(x))).collect()),
        other => other,
    }
}

/// API-observable views of the live instance (no masking).
fn api_views(w: &World) -> Value {
    let cm = w.krill.ca_manager();
    let mut cas = serde_json::Map::new();
    let mut handles = cm.ca_handles().unwrap_or_default();
    handles.sort_by_key(|h| h.to_string());
    for h in handles {
        if let Ok(ca) = cm.get_ca(&h) {
            let mut roas = ca.configured_roas();
            roas.sort();
            let mut children = serde_json::Map::new();
            let mut ch: Vec<_> = ca.children().cloned().collect();
            ch.sort_by_key(|c| c.to_string());
            for c in ch {
                if let Ok(info) = cm.ca_show_child(&h, &c) {
                    children.insert(c.to_string(), serde_json::to_value(info).unwrap());
                }
            }
            cas.insert(
                h.to_string(),
                serde_json::json!({
                    "info": serde_json::to_value(ca.as_ca_info()).unwrap(),
                    "roas": serde_json::to_value(roas).unwrap(),
                    // (lists of definitions come in the iteration order of a
                    // hash map: compared as sets)
                    "aspas": sorted_list(serde_json::to_value(ca.aspas_definitions_show()).unwrap()),
                    "bgpsec": sorted_list(serde_json::to_value(ca.bgpsec_definitions_show()).unwrap()),
                    "children": children,
                }),
            );
        }
    }
    let rm = w.krill.repo_manager();
    let mut pubs = rm.publishers().unwrap_or_default();
    pubs.sort_by_key(|p| p.to_string());
    let mut pj = serde_json::Map::new();
    for p in pubs {
        if let Ok(d) = rm.get_publisher_details(p.clone()) {
            let mut files: Vec<String> =
                d.current_files.iter().map(|f| format!("{} {}", f.uri, f.base64.to_hash())).collect();
            files.sort();
            pj.insert(p.to_string(), serde_json::json!({"base": d.base_uri.to_string(), "files": files}));
        }
    }
    serde_json::json!({
        "cas": cas,
        "publishers": pj,
        "repo_stats": crate::fingerprint::mask(&serde_json::to_value(rm.repo_stats().ok()).unwrap()),
    })
}

/// Compare live aggregates with freshly loaded ones. Returns problems.
pub fn compare_live_vs_fresh(w: &World, hdr: &Header, label: &str) -> Vec<(String, String)> {
    let mut v = Vec::new();
    let cm = w.krill.ca_manager();
    // --- CAs
    match fresh_aggregates::<CertAuth>(w, krill::constants::CASERVER_NS) {
        Err(e) => v.push(("replay-failed".into(), format!("[{label}] {e}"))),
        Ok(list) => {
            for (name, fresh) in list {
                let Ok(h) = std::str::FromStr::from_str(&name) else { continue };
                let Ok(live) = cm.get_ca(&h) else {
                    v.push(("replay-diff".into(), format!("[{label}] CA {name} in storage but not live")));
                    continue;
                };
                hdr.counters[10].fetch_add(1, Ordering::Relaxed);
                let live = mask_clock(&serde_json::to_value(live.as_ref()).unwrap());
                if live != fresh {
                    let mut d = Vec::new();
                    diff_path(&live, &fresh, "", &mut d);
                    v.push((
                        "replay-diff".into(),
                        format!("[{label}] CA {name}: live vs reloaded differ at {}", d.join("; ")),
                    ));
                }
            }
        }
    }
    // --- TA proxy / signer
    match fresh_aggregates::<TrustAnchorProxy>(w, krill::constants::TA_PROXY_SERVER_NS) {
        Err(e) => v.push(("replay-failed".into(), format!("[{label}] {e}"))),
        Ok(list) => {
            for (_n, fresh) in list {
                if let Ok(live) = cm.get_trust_anchor_proxy() {
                    let live = mask_clock(&serde_json::to_value(live.as_ref()).unwrap());
                    if live != fresh {
                        let mut d = Vec::new();
                        diff_path(&live, &fresh, "", &mut d);
                        v.push(("replay-diff".into(), format!("[{label}] TA proxy: {}", d.join("; "))));
                    }
                }
            }
        }
    }
    match fresh_aggregates::<TrustAnchorSigner>(w, krill::constants::TA_SIGNER_SERVER_NS) {
        Err(e) => v.push(("replay-failed".into(), format!("[{label}] {e}"))),
        Ok(list) => {
            for (_n, fresh) in list {
                if let Ok(live) = cm.get_trust_anchor_signer() {
                    let live = mask_clock(&serde_json::to_value(live.as_ref()).unwrap());
                    if live != fresh {
                        let mut d = Vec::new();
                        diff_path(&live, &fresh, "", &mut d);
                        v.push(("replay-diff".into(), format!("[{label}] TA signer: {}", d.join("; "))));
                    }
                }
            }
        }
    }
    // --- repository access (publishers) and content (WAL)
    match fresh_aggregates::<RepositoryAccess>(w, krill::constants::PUBSERVER_NS) {
        Err(e) => v.push(("replay-failed".into(), format!("[{label}] {e}"))),
        Ok(list) => {
            for (_n, fresh) in list {
                // live view: publisher handles + base uris via the manager
                let mut live_pubs: Vec<String> = w
                    .krill
                    .repo_manager()
                    .publishers()
                    .unwrap_or_default()
                    .iter()
                    .map(|p| p.to_string())
                    .collect();
                live_pubs.sort();
                let mut fresh_pubs: Vec<String> = fresh
                    .get("publishers")
                    .and_then(|p| p.as_object())
                    .map(|m| m.keys().cloned().collect())
                    .unwrap_or_default();
                fresh_pubs.sort();
                if live_pubs != fresh_pubs {
                    v.push((
                        "replay-diff".into(),
                        format!("[{label}] publishers live {live_pubs:?} vs reloaded {fresh_pubs:?}"),
                    ));
                }
            }
        }
    }
    match krill::server::pubd::RepositoryContentProxy::create(w.krill.storage()) {
        Err(e) => v.push(("replay-failed".into(), format!("[{label}] content store: {e}"))),
        Ok(fresh) => {
            let rm = w.krill.repo_manager();
            for p in rm.publishers().unwrap_or_default() {
                let mut live: Vec<String> = rm
                    .list(&p)
                    .map(|l| l.elements().iter().map(|e| format!("{} {}", e.uri(), e.hash())).collect())
                    .unwrap_or_default();
                live.sort();
                let reloaded = fresh.list_reply(&p);
                let mut reloaded: Vec<String> = match reloaded {
                    Ok(l) => l.elements().iter().map(|e| format!("{} {}", e.uri(), e.hash())).collect(),
                    Err(e) => {
                        v.push(("replay-failed".into(), format!("[{label}] content replay for {p}: {e}")));
                        continue;
                    }
                };
                reloaded.sort();
                hdr.counters[11].fetch_add(1, Ordering::Relaxed);
                if live != reloaded {
                    v.push((
                        "replay-diff".into(),
                        format!("[{label}] repository content of publisher {p}: live list reply differs from the reloaded log"),
                    ));
                }
            }
            let live_stats = crate::fingerprint::mask(&serde_json::to_value(rm.repo_stats().ok()).unwrap());
            let fresh_stats = crate::fingerprint::mask(&serde_json::to_value(fresh.stats().ok()).unwrap());
            if live_stats != fresh_stats {
                v.push(("replay-diff".into(), format!("[{label}] repo stats differ: {live_stats} vs {fresh_stats}")));
            }
        }
    }
    v
}

#[derive(Clone)]
pub struct C06Model {
    pub inner: C01Model,
    /// one-step bisimulation after a snapshot round with every operation of
    /// the alphabet (thorough) or one ROA change, entitlement change,
    /// suspension, re-activation and roll step per target (quick)
    pub all_probes: bool,
}

impl Model for C06Model {
    fn alphabet(&mut self, w: &World, depth: usize, path: &[Op]) -> Vec<Op> {
        let mut ops = self.inner.alphabet(w, depth, path);
        ops.push(Op::Snapshots);
        // commands that are rejected must replay as well
        ops.push(Op::Roa { ca: "ca".into(), add: vec!["192.168.0.0/24 => 65000".into()], del: vec![] });
        ops.push(Op::Entitle { parent: "parent".into(), child: "ca".into(), res: r3("AS1", "", "") });
        ops.push(Op::UpdateId { ca: "ca".into() });
        ops.push(Op::RemovePublisher { publisher: "gc".into() });
        // suspension moves certificates into a list of their own
        for o in [
            Op::Suspend { parent: "parent".into(), child: "ca".into() },
            Op::Unsuspend { parent: "parent".into(), child: "ca".into() },
        ] {
            if !ops.contains(&o) {
                ops.push(o);
            }
        }
        ops
    }

    /// The base projection plus, per entity, how many commands lie after
    /// its stored snapshot (if any): that decides the load path.
    fn fingerprint(&mut self, w: &World) -> (u64, u64) {
        let mut extra = String::new();
        for ns in ["cas", "ta_proxy", "ta_signer", "pubd", "pubd_objects"] {
            let Ok(rd) = std::fs::read_dir(format!("data/{ns}")) else { continue };
            let mut items: Vec<String> = Vec::new();
            for e in rd.flatten() {
                let dir = e.path();
                let snap = dir.join("snapshot.json");
                let n_cmds = std::fs::read_dir(&dir).map(|d| d.count()).unwrap_or(0);
                let sv = std::fs::read(&snap)
                    .ok()
                    .and_then(|b| serde_json::from_slice::<Value>(&b).ok())
                    .and_then(|v| v.get("version").or(v.get("revision")).and_then(|x| x.as_u64()));
                items.push(format!("{}:{:?}:{}", e.file_name().to_string_lossy(), sv, n_cmds));
            }
            items.sort();
            extra.push_str(&format!("{ns}={items:?};"));
        }
        let base = crate::fingerprint::canonical(w).to_string();
        crate::fingerprint::h128(format!("{base}|{extra}").as_bytes())
    }

    fn check(
        &mut self, w: &mut World, path: &[Op], out: &OpOutcome, hdr: &Header,
    ) -> Vec<(String, String)> {
        let op = path.last().unwrap();
        self.inner.intent.update(op, out);
        if let Some(f) = &out.fatal {
            return vec![("fatal".into(), f.clone())];
        }
        // (1)+(2) live vs fresh store on the same storage (snapshot taken at
        // whatever earlier point of this path + later commands)
        let mut v = compare_live_vs_fresh(w, hdr, "snapshot+later");
        if !v.is_empty() {
            return v;
        }
        // (3) from scratch: all snapshots removed, in a forked copy; the API
        // views of a restarted instance must equal the live ones unmasked
        let live_views = api_views(w);
        let live_views_s = live_views.to_string();
        let hdr_addr = hdr as *const Header as usize;
        let res = what_if(w, move |w| {
            let hdr = unsafe { &*(hdr_addr as *const Header) };
            // remove every aggregate snapshot
            for ns in ["cas", "ta_proxy", "ta_signer", "pubd"] {
                if let Ok(rd) = std::fs::read_dir(format!("data/{ns}")) {
                    for e in rd.flatten() {
                        let _ = std::fs::remove_file(e.path().join("snapshot.json"));
                    }
                }
            }
            if let Err(e) = w.restart() {
                return vec![("replay-failed".into(), format!("restart on log without snapshots: {e}"))];
            }
            let mut v = compare_live_vs_fresh(w, hdr, "restarted-from-scratch");
            let views = api_views(w);
            if views.to_string() != live_views_s {
                let mut d = Vec::new();
                let lv: Value = serde_json::from_str(&live_views_s).unwrap();
                diff_path(&lv, &views, "", &mut d);
                v.push((
                    "api-view-diff".into(),
                    format!("API views of the running instance vs instance rebuilt from the log alone: {}", d.join("; ")),
                ));
            }
            v
        });
        match res {
            Ok(x) => v.extend(x),
            Err(e) => v.push(("machinery".into(), e)),
        }
        let _ = c01::ROA_A;
        // (4) right after snapshots were taken: an instance restarted now
        // (it loads the snapshots) and the running one behave alike for one
        // more step of every operation. (Comparing serialised state alone
        // cannot see what the snapshot serialisation itself leaves out.)
        if *op == Op::Snapshots && out.ok && v.is_empty() {
            let probes: Vec<Op> = self
                .alphabet(w, path.len(), path)
                .into_iter()
                .filter(|o| !matches!(o, Op::Snapshots | Op::Restart))
                .collect();
            // quick tier: one probe per kind of operation and target (the
            // first of the alphabet); thorough: all of them
            let probes: Vec<Op> = if self.all_probes {
                probes
            } else {
                // (kept small: each probe costs two forked copies, a
                // restart and the tasks of the operation)
                let mut seen = std::collections::BTreeSet::new();
                probes
                    .into_iter()
                    .filter(|o| matches!(o, Op::Roa { .. } | Op::Entitle { .. } | Op::Suspend { .. } | Op::Unsuspend { .. } | Op::RollInit { .. } | Op::RollActivate { .. }))
                    .filter(|o| seen.insert(o.compact()))
                    .collect()
            };
            let project = |w: &World, o: &OpOutcome| -> String {
                let mut c = crate::fingerprint::canonical(w);
                if let Some(m) = c.as_object_mut() {
                    m.remove("queue");
                }
                // what the RRDP notification offers: the delta serials
                // relative to the current serial (the retention decisions
                // depend on state that a snapshot has to carry)
                let notif = std::fs::read_to_string("repo/rrdp/notification.xml").unwrap_or_default();
                let attr = |tag: &str, text: &str| -> Vec<i64> {
                    let mut out = Vec::new();
                    let mut rest = text;
                    while let Some(i) = rest.find(tag) {
                        let tail = &rest[i + tag.len()..];
                        if let Some(j) = tail.find("serial=\"") {
                            let t2 = &tail[j + 8..];
                            if let Some(k) = t2.find('"') {
                                if let Ok(n) = t2[..k].parse::<i64>() {
                                    out.push(n);
                                }
                            }
                        }
                        rest = tail;
                    }
                    out
                };
                let cur = attr("<notification", &notif).first().copied().unwrap_or(0);
                let mut deltas: Vec<i64> = attr("<delta", &notif).into_iter().map(|n| cur - n).collect();
                deltas.sort();
                serde_json::json!({"ok": o.ok, "fatal": o.fatal, "state": c, "rrdp_deltas_offered_back_from_current": deltas}).to_string()
            };
            for probe in probes {
                let p1 = probe.clone();
                // (with the tasks the operation triggers: the repository
                // synchronisation and the RRDP update are part of the step)
                let a = what_if(w, move |w| {
                    // the running instance does the work a start-up queues
                    // as well (so that both sides make the same updates and
                    // differ only in where their state comes from)
                    let _ = w.krill.tasks().reschedule_tasks_at_startup();
                    let _ = w.krill.tasks().schedule(krill::server::mq::Task::QueueStartTasks, krill::server::mq::now());
                    let _ = w.pump();
                    let o = w.apply_pumped(&p1);
                    vec![("obs".into(), project(w, &o))]
                });
                let p2 = probe.clone();
                let b = what_if(w, move |w| {
                    if let Err(e) = w.restart() {
                        return vec![("restart-failed".into(), e.to_string())];
                    }
                    let _ = w.pump();
                    let o = w.apply_pumped(&p2);
                    vec![("obs".into(), project(w, &o))]
                });
                hdr.counters[12].fetch_add(1, Ordering::Relaxed);
                match (a, b) {
                    (Ok(a), Ok(b)) => {
                        if a != b {
                            let (x, y) = (a.first().cloned().unwrap_or_default(), b.first().cloned().unwrap_or_default());
                            let mut d = Vec::new();
                            if let (Ok(xv), Ok(yv)) = (serde_json::from_str::<Value>(&x.1), serde_json::from_str::<Value>(&y.1)) {
                                diff_path(&xv, &yv, "", &mut d);
                            } else {
                                d.push(format!("{} vs {}", x.1.chars().take(200).collect::<String>(), y.1.chars().take(200).collect::<String>()));
                            }
                            v.push((
                                "restart-diverges".into(),
                                format!("after the snapshot, operation {} leads the running instance and an instance restarted from the snapshot to different states: {}", serde_json::to_string(&probe).unwrap_or_default(), d.join("; ")),
                            ));
                        }
                    }
                    (Err(e), _) | (_, Err(e)) => v.push(("machinery".into(), e)),
                }
            }
        }
        v
    }
}

pub fn run(tier: &Tier, args: &[String]) -> i32 {
    let mut out = Outcome::new("C06", tier, "model_checking");
    out.assumptions = vec![
        format!("masked as unobservable (exactly the two fields the property names): {MASKED_FIELDS:?}"),
        "snapshots are taken by the real UpdateSnapshots task at whatever point of each explored path the `Snapshots` operation occurs; the from-scratch variant deletes every snapshot.json in a forked copy and restarts".into(),
        "the repository content log (WAL) truncates on snapshot, so only snapshot+later exists for it".into(),
    ];
    let depth = crate::report::arg_value(args, "--depth")
        .and_then(|d| d.parse().ok())
        .unwrap_or(if tier.thorough { 4 } else { 3 });
    let cap = crate::report::arg_value(args, "--cap")
        .and_then(|d| d.parse().ok())
        .unwrap_or(if tier.thorough { 1800 } else { 50 });
    let thorough = tier.thorough;
    let mk = |full: bool| C06Model {
        inner: C01Model { intent: Intent::default(), full_alphabet: full, two_parents: false },
        all_probes: thorough,
    };
    let mut configs = vec![Config {
        name: "w3-agg2".into(),
        build: Box::new(|| c01::build_w3(c01::world_cfg(2, 2))),
        model: mk(tier.thorough),
    }];
    if tier.thorough {
        configs.push(Config {
            name: "w3-mapped-history-cache".into(),
            build: Box::new(|| {
                let mut cfg = c01::world_cfg(2, 2);
                cfg.history_cache = true;
                crate::checks::c03::build_mapped(cfg)
            }),
            model: mk(true),
        });
    }
    e1run::run(
        Spec { property: "C06".into(), configs, depth, wall_cap_s: cap, procs: 16, min_states: 8 },
        &mut out,
    );
    out.finish()
}
