//! C07 — commands are atomic, serialised per entity and completely audited.
//! Controlled-scheduler exploration (engine E2) of threads issuing accepted,
//! rejected and no-op commands and reads against the same and different
//! entities, on both storage back-ends.

use std::collections::{BTreeMap, BTreeSet};
use std::time::Duration;

use krill::api::history::CommandHistoryCriteria;
use krill::api::roa::RoaConfigurationUpdates;
use serde_json::{json, Value};

use crate::e2::{self, ExecOutcome};
use crate::report::{Finding, Outcome, Tier};
use crate::world::{ca, res, World, WorldCfg};

const ROA_A: &str = "10.0.10.0/24 => 65000";
const ROA_B: &str = "10.0.11.0/24 => 65000";
const ROA_P: &str = "10.9.0.0/24 => 65009";

fn cfg(disk: bool) -> WorldCfg {
    WorldCfg { disk, roa_aggregate_threshold: 100, roa_deaggregate_threshold: 90, ..WorldCfg::default() }
}

/// With the in-memory cache of command histories (krill's default).
fn cfg_history(disk: bool) -> WorldCfg {
    WorldCfg { history_cache: true, ..cfg(disk) }
}

fn build(disk: bool) -> Result<World, String> {
    let mut w = World::build_w2(cfg(disk), res("AS65000-AS65005", "10.0.0.0/16", "")).map_err(|e| e.to_string())?;
    let o = w.apply_pumped(&crate::ops::Op::Roa { ca: "ca".into(), add: vec!["10.0.1.0/24 => 65000".into()], del: vec![] });
    if !o.ok {
        return Err(format!("{:?}", o.err));
    }
    w.settle()?;
    Ok(w)
}

fn delta(add: &[&str], del: &[&str]) -> RoaConfigurationUpdates {
    let mk = |s: &&str| -> Value {
        let (p, a) = s.split_once(" => ").unwrap();
        json!({"asn": a.parse::<u32>().unwrap(), "prefix": p})
    };
    serde_json::from_value(json!({"added": add.iter().map(mk).collect::<Vec<_>>(), "removed": del.iter().map(mk).collect::<Vec<_>>()})).unwrap()
}

fn roa_set(w_krill: &krill::server::runtime::KrillRuntime, name: &str) -> Result<(u64, BTreeSet<String>), String> {
    use krill::commons::eventsourcing::Aggregate;
    let c = w_krill.ca_manager().get_ca(&ca(name)).map_err(|e| e.to_string())?;
    let set = c.configured_roas().iter().map(|r| r.roa_configuration.payload.into_explicit_max_length().to_string()).collect();
    Ok((c.version(), set))
}

/// One execution: the threads of `variant` under the schedule `prefix`.
fn exec(disk: bool, template: &std::path::Path, variant_full: &str, prefix: &[usize]) -> ExecOutcome {
    let trust = !variant_full.ends_with("+real-locks");
    let variant = variant_full.trim_end_matches("+real-locks");
    let mut out = ExecOutcome::default();
    let w = if disk {
        if let Err(e) = crate::e3::copy_dir(template, std::path::Path::new(".")) {
            out.violations.push(("machinery".into(), format!("copy: {e}")));
            return out;
        }
        // continue where the template's builder was
        match World::reopen(if variant == "history" { cfg_history(true) } else { cfg(true) }) {
            Ok(w) => w,
            Err(e) => {
                out.violations.push(("machinery".into(), format!("reopen: {e}")));
                return out;
            }
        }
    } else {
        match build(false) {
            Ok(w) => w,
            Err(e) => {
                out.violations.push(("machinery".into(), format!("build: {e}")));
                return out;
            }
        }
    };
    let (v0, roas0) = roa_set(&w.krill, "ca").unwrap_or_default();
    let (pv0, _) = roa_set(&w.krill, "parent").unwrap_or_default();
    let actor = w.actor.clone();
    let cmd = |target: &'static str, add: Vec<&'static str>, del: Vec<&'static str>| {
        let k = w.krill.clone();
        let a = actor.clone();
        move || -> String {
            match k.ca_manager().ca_routes_update(ca(target), delta(&add, &del), &a, &k) {
                Ok(()) => "ok".to_string(),
                Err(e) => format!("err: {e}"),
            }
        }
    };
    let read = |target: &'static str| {
        let k = w.krill.clone();
        move || -> String {
            match roa_set(&k, target) {
                Ok((v, s)) => format!("read#{v}#{}", s.into_iter().collect::<Vec<_>>().join("|")),
                Err(e) => format!("read-err: {e}"),
            }
        }
    };
    let mut bodies: Vec<Box<dyn FnOnce() -> Vec<String> + Send>> = Vec::new();
    match variant {
        // two writers racing for the same change, one reader
        "same-roa" => {
            let (a, b, r) = (cmd("ca", vec![ROA_A], vec![]), cmd("ca", vec![ROA_A], vec![]), read("ca"));
            bodies.push(Box::new(move || vec![a()]));
            bodies.push(Box::new(move || vec![b()]));
            let r2 = read("ca");
            bodies.push(Box::new(move || vec![r(), r2()]));
        }
        // accepted, rejected and no-op commands mixed
        "mixed" => {
            let (a, rej) = (cmd("ca", vec![ROA_A], vec![]), cmd("ca", vec![], vec![ROA_B]));
            let (b, noop) = (cmd("ca", vec![ROA_B], vec![]), cmd("ca", vec![], vec![]));
            bodies.push(Box::new(move || vec![a(), rej()]));
            bodies.push(Box::new(move || vec![noop(), b()]));
            let (r, r2) = (read("ca"), read("ca"));
            bodies.push(Box::new(move || vec![r(), r2()]));
        }
        // two writers only (base for probing the real locks)
        "two-writers" => {
            let (a, b) = (cmd("ca", vec![ROA_A], vec![]), cmd("ca", vec![ROA_A], vec![]));
            bodies.push(Box::new(move || vec![a()]));
            bodies.push(Box::new(move || vec![b()]));
        }
        // a writer and two callers of the history API (history cache on):
        // every listing is the recorded order, each command once
        "history" => {
            let hist = |target: &'static str| {
                let k = w.krill.clone();
                move || -> String {
                    match k.ca_manager().ca_history(&ca(target), CommandHistoryCriteria { rows_limit: Some(10_000), ..Default::default() }) {
                        Ok(h) => {
                            let hv = serde_json::to_value(&h).unwrap_or_default();
                            let versions: Vec<String> = hv["commands"].as_array().cloned().unwrap_or_default().iter().filter_map(|c| c["version"].as_u64()).map(|v| v.to_string()).collect();
                            format!("hist#{}#{}", hv["total"].as_u64().unwrap_or(0), versions.join(","))
                        }
                        Err(e) => format!("hist-err: {e}"),
                    }
                }
            };
            let a = cmd("ca", vec![ROA_A], vec![]);
            let (h1, h2, h3) = (hist("ca"), hist("ca"), hist("ca"));
            bodies.push(Box::new(move || vec![a(), h1()]));
            bodies.push(Box::new(move || vec![h2()]));
            bodies.push(Box::new(move || vec![h3()]));
        }
        // the same and a different entity
        "two-entities" => {
            let (a, p) = (cmd("ca", vec![ROA_A], vec![]), cmd("parent", vec![ROA_P], vec![]));
            let (b, p2) = (cmd("ca", vec![ROA_B], vec![]), cmd("parent", vec![ROA_P], vec![]));
            bodies.push(Box::new(move || vec![a(), p()]));
            bodies.push(Box::new(move || vec![p2(), b()]));
        }
        other => {
            out.violations.push(("machinery".into(), format!("unknown variant {other}")));
            return out;
        }
    }
    let result = e2::run_schedule_opt(bodies, prefix, 400, trust);
    out.result = result.clone();
    if let Some(d) = &result.deadlock {
        out.violations.push(("deadlock".into(), d.clone()));
        out.outcome = "deadlock".into();
        return out;
    }
    let mut bad = |k: &str, d: String| out.violations.push((k.to_string(), d));
    let all: Vec<String> = result.outputs.iter().flatten().cloned().collect();
    for o in &all {
        if o.starts_with("PANIC") {
            bad("panic", o.clone());
        }
        if let Some(rest) = o.strip_prefix("hist#") {
            // "total#v1,v2,...": consecutive from 1, total = number listed
            let (total, list) = rest.split_once('#').unwrap_or(("0", ""));
            let versions: Vec<u64> = list.split(',').filter_map(|x| x.parse().ok()).collect();
            let consecutive = versions.iter().enumerate().all(|(i, v)| *v == versions[0] + i as u64);
            if !consecutive || total.parse::<usize>().ok() != Some(versions.len()) {
                bad("history-listing", format!("a history listing taken during the run is not the recorded order, each command once: total {total}, versions {versions:?}"));
            }
        } else if o.starts_with("hist-err") {
            bad("history-listing", o.clone());
        }
    }
    // --- the audit log of each entity
    for (target, start_version) in [("ca", v0), ("parent", pv0)] {
        let hist = match w.krill.ca_manager().ca_history(&ca(target), CommandHistoryCriteria { rows_limit: Some(10_000), ..Default::default() }) {
            Ok(h) => h,
            Err(e) => {
                bad("history", format!("history of {target}: {e}"));
                continue;
            }
        };
        let hv = serde_json::to_value(&hist).unwrap_or_default();
        let cmds = hv["commands"].as_array().cloned().unwrap_or_default();
        // consecutive versions
        let versions: Vec<u64> = cmds.iter().filter_map(|c| c["version"].as_u64()).collect();
        for (i, v) in versions.iter().enumerate() {
            if *v != versions[0] + i as u64 {
                bad("version-gap", format!("{target}: recorded command versions are not consecutive: {versions:?}"));
                break;
            }
        }
        // stored command files agree with the history API
        let mut files: Vec<u64> = Vec::new();
        if w.cfg.disk {
            if let Ok(rd) = std::fs::read_dir(format!("data/cas/{target}")) {
                for e in rd.flatten() {
                    let n = e.file_name().to_string_lossy().to_string();
                    if let Some(v) = n.strip_prefix("command-").and_then(|x| x.strip_suffix(".json")).and_then(|x| x.parse::<u64>().ok()) {
                        files.push(v);
                    }
                }
            }
            files.sort();
            // (the history does not list the initialisation, command 0)
            files.retain(|v| *v != 0);
            if files != versions {
                bad("history-mismatch", format!("{target}: command files {files:?} but the history lists {versions:?}"));
            }
        }
        let (v_now, _) = roa_set(&w.krill, target).unwrap_or_default();
        // new commands of this run
        let new: Vec<&Value> = cmds.iter().filter(|c| c["version"].as_u64().map(|v| v >= start_version).unwrap_or(false)).collect();
        if v_now != start_version + new.len() as u64 {
            bad("version-count", format!("{target}: entity went from version {start_version} to {v_now} but {} commands were recorded", new.len()));
        }
        // what the callers were told
        let told_ok = result
            .outputs
            .iter()
            .flatten()
            .filter(|_| true)
            .count();
        let _ = told_ok;
        for c in &new {
            if c["actor"].as_str().map(|a| a.is_empty()).unwrap_or(true) {
                bad("audit-actor", format!("{target}: a recorded command has no actor: {c}"));
            }
        }
        if target == "ca" {
            // replay: the ROA set after each recorded command
            let mut sets: BTreeMap<u64, BTreeSet<String>> = BTreeMap::new();
            let mut cur = roas0.clone();
            sets.insert(start_version, cur.clone());
            let mut n_success = 0;
            let mut n_error = 0;
            for c in &new {
                let v = c["version"].as_u64().unwrap_or(0);
                let ok = c["effect"]["result"] == "success" || c["effect"].as_str() == Some("success") || c["effect"]["events"].is_array();
                let details = w.krill.ca_manager().ca_command_details(&ca(target), v).ok().map(|d| serde_json::to_value(d).unwrap_or_default()).unwrap_or_default();
                let is_err = details["effect"]["result"] == "error";
                if is_err {
                    n_error += 1;
                } else {
                    n_success += 1;
                    let _ = ok;
                    for ev in details["effect"]["events"].as_array().cloned().unwrap_or_default() {
                        let auth = ev["details"]["auth"].as_str().unwrap_or("").to_string();
                        match ev["details"]["type"].as_str() {
                            Some("route_authorization_added") => {
                                cur.insert(auth);
                            }
                            Some("route_authorization_removed") => {
                                cur.remove(&auth);
                            }
                            _ => {}
                        }
                    }
                }
                sets.insert(v + 1, cur.clone());
            }
            // callers: accepted changes are exactly the recorded successes
            let ca_results: Vec<&String> = match variant {
                "two-entities" => vec![&result.outputs[0][0], &result.outputs[1][1]],
                _ => result.outputs.iter().take(2).flatten().collect(),
            };
            let oks = ca_results.iter().filter(|r| r.as_str() == "ok").count();
            let errs = ca_results.iter().filter(|r| r.starts_with("err")).count();
            let expected_noops = if variant == "mixed" { 1 } else { 0 };
            if oks != n_success + expected_noops {
                bad("lost-or-duplicated", format!("{oks} commands on {target} were acknowledged ({expected_noops} of them without effect) but {n_success} were recorded with effect"));
            }
            if errs != n_error {
                bad("audit-of-rejected", format!("{errs} commands on {target} were rejected but {n_error} rejections were recorded"));
            }
            if (variant == "same-roa" || variant == "two-writers") && oks != 1 {
                bad("lost-or-duplicated", format!("two concurrent additions of the same ROA: {oks} succeeded (results {ca_results:?})"));
            }
            // the final state is the last replayed one
            let (_, now) = roa_set(&w.krill, target).unwrap_or_default();
            if Some(&now) != sets.values().last() {
                bad("state-not-replay", format!("{target}: final ROA set {now:?} is not what the recorded commands produce {:?}", sets.values().last()));
            }
            // readers saw a prefix
            if let Some(reads) = result.outputs.get(2) {
                let mut last_v = 0;
                for r in reads {
                    if r.starts_with("hist") {
                        continue; // judged above
                    }
                    let mut it = r.split('#');
                    if it.next() != Some("read") {
                        bad("reader", format!("read failed: {r}"));
                        continue;
                    }
                    let v: u64 = it.next().and_then(|x| x.parse().ok()).unwrap_or(0);
                    let s: BTreeSet<String> = it.next().unwrap_or("").split('|').filter(|x| !x.is_empty()).map(|x| x.to_string()).collect();
                    if v < last_v {
                        bad("reader", format!("a reader saw version {v} after {last_v}"));
                    }
                    last_v = v;
                    match sets.get(&v) {
                        None => bad("reader", format!("a reader saw version {v}, which no recorded prefix produces")),
                        Some(want) => {
                            if *want != s {
                                bad("reader", format!("a reader saw {s:?} at version {v}; the first {v} commands produce {want:?}"));
                            }
                        }
                    }
                }
            }
        }
    }
    // --- a fresh instance replays to the same state
    if w.cfg.disk {
        let live = (roa_set(&w.krill, "ca"), roa_set(&w.krill, "parent"));
        match World::reopen(cfg(true)) {
            Ok(f) => {
                let stored = (roa_set(&f.krill, "ca"), roa_set(&f.krill, "parent"));
                if live != stored {
                    bad("live-differs-from-stored", format!("live {live:?} stored {stored:?}"));
                }
            }
            Err(e) => bad("reload", e.to_string()),
        }
    }
    out.outcome = result
        .outputs
        .iter()
        .enumerate()
        .map(|(i, o)| format!("t{i}: {}", o.iter().map(|x| x.lines().next().unwrap_or("").to_string()).collect::<Vec<_>>().join(", ")))
        .collect::<Vec<_>>()
        .join(" | ");
    out
}

pub fn run(tier: &Tier, args: &[String]) -> i32 {
    let mut out = Outcome::new("C07", tier, "model_checking");
    out.assumptions = vec![
        "scheduling points are the lock hand-offs krill reports through hook H2 (key-value scope locks of the disk and memory back-ends, read and write); between them a thread runs uninterrupted. The whole load-process-store-cache sequence of a command runs inside one such lock, so finer points would only reorder steps of different entities".into(),
        "locks that are not reported (std mutexes/rwlocks around caches and the status store) are not modelled; a watchdog (400 ms without reaching a point) treats a thread as blocked there".into(),
        "variants marked +real-locks do not use the reported lock states to decide who may run: every parked thread is a candidate and the real file / rwlocks do the blocking, so the exclusion itself is exercised and not taken from the reports".into(),
        "harness: 2 writer threads with 1-2 commands each (accepted, rejected, without effect) and a reader thread with 2 reads, on the CA 'ca' and its parent; preemption bound as stated in coverage".into(),
    ];
    if let Some(file) = crate::report::arg_value(args, "--replay") {
        let v: Value = match std::fs::read(&file).ok().and_then(|b| serde_json::from_slice(&b).ok()) {
            Some(v) => v,
            None => {
                eprintln!("cannot read {file}");
                return 2;
            }
        };
        let variant = v["variant"].as_str().unwrap_or("same-roa").to_string();
        let disk = v["disk"].as_bool().unwrap_or(true);
        let schedule: Vec<usize> = v["schedule"].as_array().map(|a| a.iter().filter_map(|x| x.as_u64().map(|x| x as usize)).collect()).unwrap_or_default();
        let root = crate::e1run::scratch_root();
        let _guard = crate::e1run::ScratchGuard(root.clone());
        let _ = std::fs::remove_dir_all(&root);
        let template = root.join("template");
        std::fs::create_dir_all(&template).unwrap();
        let (built, _) = crate::e3::fork_in_dir(&template, || build(true).map(|_| crate::keys::persistent_used()));
        let Some(Ok(keys_used)) = built else {
            eprintln!("template build failed");
            return 2;
        };
        crate::keys::skip(keys_used + 8);
        let x = root.join("replay");
        std::fs::create_dir_all(&x).unwrap();
        std::env::set_current_dir(&x).unwrap();
        let o = exec(disk, &template, &variant, &schedule);
        println!("outputs: {:?}", o.result.outputs);
        for c in &o.result.trace {
            println!("  choice among {:?} ({:?}): {}", c.enabled, c.what, c.enabled.get(c.chosen).copied().unwrap_or(0));
        }
        for (k, d) in &o.violations {
            println!("  -> {k}: {d}");
        }
        let _ = std::env::set_current_dir("/");
        if o.violations.is_empty() {
            println!("OK property=C07 replay holds");
            return 0;
        }
        println!("VIOLATION property=C07 replay={file}");
        return 1;
    }
    let bound: usize = crate::report::arg_value(args, "--bound").and_then(|b| b.parse().ok()).unwrap_or(if tier.thorough { 2 } else { 1 });
    let root = crate::e1run::scratch_root();
    let _guard = crate::e1run::ScratchGuard(root.clone());
    let _ = std::fs::remove_dir_all(&root);
    std::fs::create_dir_all(&root).unwrap();
    // template for the disk back-end, built in a child so that this process
    // stays without a runtime
    let template = root.join("template");
    std::fs::create_dir_all(&template).unwrap();
    let (built, _) = crate::e3::fork_in_dir(&template, || build(true).map(|_| crate::keys::persistent_used()).map_err(|e| e));
    let keys_used = match built {
        Some(Ok(k)) => k,
        other => {
            out.machinery_errors.push(format!("template build failed: {other:?}"));
            return out.finish();
        }
    };
    crate::keys::skip(keys_used + 8);
    let mut runs = Vec::new();
    let mut samples: Vec<Value> = Vec::new();
    let mut total_exec = 0u64;
    let variants: Vec<(&str, bool)> = if tier.thorough {
vec![("same-roa", true), ("mixed", true), ("two-entities", true), ("history", true), ("same-roa", false), ("mixed", false), ("two-writers+real-locks", true), ("two-writers+real-locks", false)]
    } else {
vec![("same-roa", true), ("mixed", true), ("two-entities", true), ("history", true), ("same-roa", false), ("two-writers+real-locks", true)]
    };
    let only = crate::report::arg_value(args, "--variant");
    // quick tier: one wall budget for all variants together (a variant gets
    // an equal share of what is left, at least five seconds)
    let quick_deadline = std::time::Instant::now() + Duration::from_secs(60);
    let n_variants = variants.len();
    for (vi, (variant, disk)) in variants.into_iter().enumerate() {
        if only.as_deref().map(|o| o != variant).unwrap_or(false) {
            continue;
        }
        let b = if variant.ends_with("+real-locks") { bound.min(1) } else { bound };
        let cap = if tier.thorough { 20_000 } else { 1_500 };
        let wall = if tier.thorough {
            Duration::from_secs(900)
        } else {
            let left = quick_deadline.saturating_duration_since(std::time::Instant::now());
            (left / (n_variants - vi) as u32).max(Duration::from_secs(5)).min(Duration::from_secs(40))
        };
        let xroot = root.join(format!("{variant}-{disk}"));
        std::fs::create_dir_all(&xroot).unwrap();
        let tpl = template.clone();
        let stats = e2::explore(&xroot, b, cap, 16, wall, variant.ends_with("+real-locks"), &|prefix| exec(disk, &tpl, variant, prefix));
        total_exec += stats.executions;
        for m in &stats.machinery {
            out.machinery_errors.push(format!("{variant}/{}: {m}", if disk { "disk" } else { "memory" }));
        }
        let mut seen = BTreeSet::new();
        for (prefix, kind, detail, result) in &stats.violations {
            if kind == "machinery" {
                out.machinery_errors.push(format!("{variant}: {detail}"));
                continue;
            }
            let key = format!("{kind}|{}", crate::e1::normalize(detail));
            if !seen.insert(key.clone()) {
                continue;
            }
            out.findings.push(Finding {
                signature: format!("{key} @ variant={variant} backend={}", if disk { "disk" } else { "memory" }),
                text: format!("[{variant}/{}] {kind}: {detail}; schedule {prefix:?}", if disk { "disk" } else { "memory" }),
                replay: json!({"variant": variant, "disk": disk, "schedule": prefix, "trace": result.trace, "outputs": result.outputs, "kind": kind, "detail": detail}),
            });
        }
        samples.extend(stats.samples.iter().cloned());
        runs.push(json!({
            "variant": variant, "backend": if disk { "disk" } else { "memory" }, "preemption_bound": b,
            "schedules": stats.executions, "choice_points": stats.choice_points, "longest_schedule": stats.max_trace,
            "distinct_outcomes": stats.distinct_outcomes.len(), "outcomes": stats.distinct_outcomes,
            "cap_hit": stats.capped, "watchdog_fired": stats.watchdog_fired, "schedules_not_followed_exactly": stats.diverged,
        }));
        // (a run that was cut short by its wall budget says nothing about
        // the harness: the schedules that differ come later in the order)
        if stats.distinct_outcomes.len() < 2 && !stats.capped {
            out.machinery_errors.push(format!("{variant}: only {} distinct outcome(s) over {} schedules - nothing collided", stats.distinct_outcomes.len(), stats.executions));
        }
    }
    if let Some(file) = crate::report::arg_value(args, "--replay") {
        let _ = file;
    }
    let capped = runs.iter().any(|r| r["cap_hit"] == json!(true) || r["schedules_not_followed_exactly"].as_u64().unwrap_or(0) > 0);
    out.coverage = json!({
        "schedules": total_exec,
        "states": total_exec,
        "transitions": runs.iter().map(|r| r["choice_points"].as_u64().unwrap_or(0)).sum::<u64>(),
        "traces_validated_against_impl": total_exec,
        "rule": "every schedule of the harness threads with at most the stated number of preemptions, each executed on the real runtime from the same initial state; after each: consecutive versions, command files = history API, acknowledged = recorded, rejected = recorded with error, commands without effect leave no trace, two racing identical changes: exactly one wins, every read equals the state after a prefix of the recorded order, final state = replay, fresh instance replays to the live state",
        "runs": runs,
        "samples": samples.iter().take(6).collect::<Vec<_>>(),
        "exhaustive": !capped,
    });
    out.finish()
}
