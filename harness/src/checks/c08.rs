//! C08 — a crash or failed write at any instant is recoverable without loss
//! or divergence. For every scenario (state, operation) the sequence of
//! storage and file-system mutations of the operation *and of the background
//! tasks it triggers* is recorded; then every prefix is cut, once as a
//! process crash (`_exit` before the n-th mutation) and once as a single
//! failing write, and the survivor is compared with a fault-free twin.

use std::collections::{BTreeMap, BTreeSet};

use serde_json::{json, Value};

use crate::e3::{self, Mode};
use crate::ops::{r3, Op};
use crate::report::{Finding, Outcome, Tier};
use crate::world::{ca, res, World, WorldCfg};

fn cfg() -> WorldCfg {
    WorldCfg { roa_aggregate_threshold: 100, roa_deaggregate_threshold: 90, ..WorldCfg::default() }
}

fn base() -> Result<World, String> {
    let mut w = World::build_w3(cfg(), res("AS65000-AS65005", "10.0.0.0/16, 10.1.0.0/16", "2001:db8::/48"), res("AS65001", "10.0.0.0/24", ""))
        .map_err(|e| e.to_string())?;
    for op in [
        Op::Roa { ca: "ca".into(), add: vec!["10.0.1.0/24 => 65000".into(), "10.1.0.0/16 => 65002".into()], del: vec![] },
        Op::Roa { ca: "gc".into(), add: vec!["10.0.0.0/24 => 65001".into()], del: vec![] },
        Op::AspaSet { ca: "ca".into(), customer: 65000, providers: vec![65001] },
    ] {
        let o = w.apply_pumped(&op);
        if !o.ok {
            return Err(format!("{op:?}: {:?}", o.err));
        }
    }
    w.settle()?;
    Ok(w)
}

struct Scenario {
    name: &'static str,
    /// operations applied (and settled) on top of the base state
    prefix: Vec<Op>,
    /// the operation is one that krill refuses (it leaves an audit record)
    rejected: bool,
    /// restart right before the operation (cold caches)
    cold: bool,
    /// operations run (and pumped) in the same instance right before the cut
    /// operation: the aggregate cache is refreshed lazily, so whether the
    /// cached entity is current when the cut command runs depends on them
    before: Vec<Op>,
    /// the operation whose execution (with its background work) is cut
    op: Op,
}

fn scenarios(thorough: bool) -> Vec<Scenario> {
    let c = || "ca".to_string();
    let p = || "parent".to_string();
    let mut v = vec![
        // one more accepted command before: the aggregate cache is refreshed
        // lazily, so whether the entry is current when the cut command runs
        // depends on the history before it
        Scenario { name: "roa-add-after-another", prefix: vec![], rejected: false, cold: false, before: vec![Op::Roa { ca: c(), add: vec!["10.0.3.0/24 => 65003".into()], del: vec![] }], op: Op::Roa { ca: c(), add: vec!["10.0.2.0/24 => 65000".into()], del: vec![] } },
        Scenario { name: "roll-activate", prefix: vec![Op::RollInit { ca: c() }], rejected: false, cold: false, before: vec![], op: Op::RollActivate { ca: c() } },
        // a snapshot round (the daily task) after changes: every aggregate's
        // snapshot and the repository content log's snapshot + change sets
        // a publisher with content is removed: two stores (access aggregate,
        // content log) and the served files have to agree afterwards
        Scenario { name: "publisher-removed", prefix: vec![Op::AddCa { ca: "alice".into() }, Op::PubDelta { publisher: "alice".into(), elems: vec![crate::ops::PubEl::Publish { uri: "rsync://localhost/repo/alice/a.txt".into(), content: 1 }] }], rejected: false, cold: false, before: vec![], op: Op::RemovePublisher { publisher: "alice".into() } },
        // a CA gives up a parent: revocation at the parent, class removal in
        // the CA and in its published-object set, withdrawal
        // a command that is refused: all it writes is its audit record
        Scenario { name: "roa-add-refused", prefix: vec![], rejected: true, cold: false, before: vec![Op::Roa { ca: c(), add: vec!["10.0.3.0/24 => 65003".into()], del: vec![] }], op: Op::Roa { ca: c(), add: vec!["192.168.0.0/24 => 65000".into()], del: vec![] } },
        // a CA is created (the first record of a new entity)
        Scenario { name: "ca-created", prefix: vec![], rejected: false, cold: false, before: vec![], op: Op::InitCa { ca: "newca".into() } },
        // a child is removed at its parent (its own CA is gone already, so
        // that nothing is left orphaned): CA command and status records
        Scenario { name: "child-removed", prefix: vec![Op::DeleteCa { ca: "gc".into() }], rejected: false, cold: false, before: vec![], op: Op::RemoveChild { parent: c(), child: "gc".into() } },
        Scenario { name: "parent-removed", prefix: vec![], rejected: false, cold: false, before: vec![], op: Op::RemoveParent { ca: "gc".into(), parent: c() } },
        Scenario { name: "snapshots-after-changes", prefix: vec![Op::Snapshots, Op::Roa { ca: c(), add: vec!["10.0.4.0/24 => 65000".into()], del: vec![] }], rejected: false, cold: false, before: vec![], op: Op::Snapshots },
        Scenario { name: "entitlement-shrink", prefix: vec![], rejected: false, cold: false, before: vec![], op: Op::Entitle { parent: p(), child: c(), res: r3("AS65000-AS65005", "10.0.0.0/16", "2001:db8::/48") } },
        Scenario { name: "roll-init", prefix: vec![], rejected: false, cold: false, before: vec![], op: Op::RollInit { ca: c() } },
        Scenario { name: "roa-add", prefix: vec![], rejected: false, cold: false, before: vec![], op: Op::Roa { ca: c(), add: vec!["10.0.2.0/24 => 65000".into()], del: vec![] } },
        Scenario { name: "roa-add-cold", prefix: vec![], rejected: false, cold: true, before: vec![], op: Op::Roa { ca: c(), add: vec!["10.0.2.0/24 => 65000".into()], del: vec![] } },
    ];
    if thorough {
        v.extend([
            Scenario { name: "roa-del", prefix: vec![], rejected: false, cold: false, before: vec![], op: Op::Roa { ca: c(), add: vec![], del: vec!["10.0.1.0/24 => 65000".into()] } },
            Scenario { name: "aspa-set", prefix: vec![], rejected: false, cold: false, before: vec![], op: Op::AspaSet { ca: c(), customer: 65002, providers: vec![65003, 65004] } },
            Scenario { name: "bgpsec-add", prefix: vec![], rejected: false, cold: false, before: vec![], op: Op::BgpsecAdd { ca: c(), asn: 65000, csr: 0 } },
            Scenario { name: "entitlement-grow-cold", prefix: vec![Op::Entitle { parent: p(), child: c(), res: r3("AS65000-AS65005", "10.0.0.0/16", "2001:db8::/48") }], rejected: false, cold: true, before: vec![], op: Op::Entitle { parent: p(), child: c(), res: r3("AS65000-AS65005", "10.0.0.0/16, 10.1.0.0/16", "2001:db8::/48") } },
            Scenario { name: "republish-after-a-day", prefix: vec![Op::Tick { secs: 86400 }], rejected: false, cold: false, before: vec![], op: Op::Republish { force: false } },
            Scenario { name: "roll-init-rolling-parent", prefix: vec![Op::RollInit { ca: p() }], rejected: false, cold: false, before: vec![], op: Op::RollInit { ca: c() } },
            Scenario { name: "update-id", prefix: vec![], rejected: false, cold: false, before: vec![], op: Op::UpdateId { ca: c() } },
        ]);
    }
    v
}

/// What a user sees, without fresh material: configuration and entitlement
/// views per CA, key-state kinds, and the relying-party payloads.
pub fn observable(w: &World) -> Value {
    let cm = w.krill.ca_manager();
    let mut cas = serde_json::Map::new();
    let mut hs = cm.ca_handles().unwrap_or_default();
    hs.sort_by_key(|h| h.to_string());
    for h in hs {
        let Ok(c) = cm.get_ca(&h) else {
            cas.insert(h.to_string(), json!("CANNOT LOAD"));
            continue;
        };
        let mut roas: Vec<String> = c.configured_roas().iter().map(|r| r.roa_configuration.payload.into_explicit_max_length().to_string()).collect();
        roas.sort();
        let aspas = serde_json::to_value(c.aspas_definitions_show()).unwrap_or_default();
        let mut bgpsec: Vec<String> = serde_json::to_value(c.bgpsec_definitions_show())
            .ok()
            .and_then(|v| v.as_array().cloned())
            .unwrap_or_default()
            .iter()
            .map(|d| format!("{}", d["asn"]))
            .collect();
        bgpsec.sort();
        let mut children = serde_json::Map::new();
        let mut chs: Vec<_> = c.children().cloned().collect();
        chs.sort_by_key(|x| x.to_string());
        for ch in chs {
            if let Ok(d) = c.get_child(&ch) {
                children.insert(ch.to_string(), json!({"resources": d.resources.to_string(), "suspended": d.state.is_suspended()}));
            }
        }
        let mut parents: Vec<String> = c.parents().map(|p| p.to_string()).collect();
        parents.sort();
        let mut kinds: Vec<String> = crate::checks::c04::key_states(w, h.as_str()).values().map(|(k, open)| format!("{k}{}", if *open { "+request" } else { "" })).collect();
        kinds.sort();
        cas.insert(
            h.to_string(),
            json!({"roas": roas, "aspas": crate::fingerprint::mask(&aspas), "bgpsec": bgpsec, "children": children, "parents": parents, "resources": c.all_resources().to_string(), "keys": kinds}),
        );
    }
    let rp = match crate::rp::view_from_lists(w) {
        Ok(view) => {
            let r = crate::rp::validate(w, &view);
            json!({
                "vrps": r.vrps.iter().map(|v| format!("{v:?}")).collect::<Vec<_>>(),
                "aspas": r.aspas.iter().map(|v| format!("{v:?}")).collect::<Vec<_>>(),
                "router_keys": r.router_keys.iter().map(|(a, _)| *a).collect::<Vec<_>>(),
                "rejections": r.rejections.len(),
                "points": r.cas.iter().map(|c| c.resources.clone()).collect::<BTreeSet<_>>(),
            })
        }
        Err(e) => json!({"error": e}),
    };
    let mut pubs: Vec<String> = w.krill.repo_manager().publishers().unwrap_or_default().iter().map(|p| p.to_string()).collect();
    pubs.sort();
    // what the RRDP snapshot serves, per publisher directory (object names
    // carry key identifiers, so only the numbers are comparable)
    let mut served: BTreeMap<String, u64> = BTreeMap::new();
    match crate::rp::view_from_rrdp(w) {
        Ok((view, _)) => {
            for uri in view.keys() {
                let dir = uri.strip_prefix("rsync://localhost/repo/").and_then(|r| r.split('/').next()).unwrap_or("?");
                *served.entry(dir.to_string()).or_default() += 1;
            }
        }
        Err(e) => {
            served.insert(format!("error: {e}"), 0);
        }
    }
    json!({"cas": cas, "rp": rp, "publishers": pubs, "served_objects": served})
}

/// number of recorded commands of a CA
fn history_len(w: &World, name: &str) -> u64 {
    w.krill.ca_manager().get_ca(&ca(name)).map(|c| {
        use krill::commons::eventsourcing::Aggregate;
        c.version()
    }).unwrap_or(0)
}

fn first_diff(a: &Value, b: &Value, path: &str) -> String {
    match (a, b) {
        (Value::Object(x), Value::Object(y)) => {
            for (k, v) in x {
                match y.get(k) {
                    None => return format!("{path}/{k} missing"),
                    Some(w) if w != v => return first_diff(v, w, &format!("{path}/{k}")),
                    _ => {}
                }
            }
            for k in y.keys() {
                if !x.contains_key(k) {
                    return format!("{path}/{k} extra");
                }
            }
            String::new()
        }
        _ => format!("{path}: {} vs {}", a.to_string().chars().take(160).collect::<String>(), b.to_string().chars().take(160).collect::<String>()),
    }
}

/// The target CA of an operation (whose audit log the operation extends).
fn target_ca(op: &Op) -> String {
    match op {
        Op::Roa { ca, .. } | Op::AspaSet { ca, .. } | Op::BgpsecAdd { ca, .. } | Op::RollInit { ca } | Op::RollActivate { ca } | Op::UpdateId { ca } => ca.clone(),
        Op::Entitle { parent, .. } | Op::RemoveChild { parent, .. } | Op::Suspend { parent, .. } => parent.clone(),
        Op::RemoveParent { ca, .. } | Op::AddCa { ca } | Op::InitCa { ca } => ca.clone(),
        _ => "ca".into(),
    }
}

/// Lets background work catch up (the fault-free twin does the same).
fn catch_up(w: &mut World) -> Result<(), String> {
    w.settle()?;
    w.settle()?;
    // tasks that failed were put back for later (five minutes, an hour):
    // let that time pass in one step and run what is due then
    crate::clock::advance(3700);
    w.pump()?;
    w.settle()?;
    w.settle()?;
    Ok(())
}

/// After the cut: everything loads; live state equals a fresh load; then
/// background work, re-submission, settling; equals the twin.
fn recover_and_compare(w: &mut World, sc_op: &Op, twin: &Value, pre: &Value, pre_len: u64, acked: bool, fresh_instance: bool, adds_command: bool) -> Vec<(String, String)> {
    let mut v: Vec<(String, String)> = Vec::new();
    let cm = w.krill.ca_manager();
    // every entity loads
    match cm.ca_handles() {
        Err(e) => v.push(("load".into(), format!("cannot list CAs: {e}"))),
        Ok(hs) => {
            for h in hs {
                if let Err(e) = cm.get_ca(&h) {
                    v.push(("load".into(), format!("CA {h} does not load: {e}")));
                }
            }
        }
    }
    if let Err(e) = cm.get_trust_anchor_proxy() {
        v.push(("load".into(), format!("TA proxy does not load: {e}")));
    }
    if let Err(e) = w.krill.repo_manager().publishers() {
        v.push(("load".into(), format!("repository does not load: {e}")));
    }
    if !v.is_empty() {
        return v;
    }
    // the repository files are consistent as they are
    v.extend(crate::checks::pubd::files_consistent(w, false).into_iter().map(|(k, d)| (format!("repository-{k}"), d)));
    // the interrupted command is completely present or completely absent
    let target = target_ca(sc_op);
    let len = history_len(w, &target);
    if acked && adds_command && len <= pre_len {
        v.push(("acknowledged-lost".into(), format!("the command was acknowledged before the cut, but CA {target} is at version {len} (before the command: {pre_len})")));
    }
    // live state == state of a fresh load of what is stored
    if !fresh_instance {
        let live = observable(w);
        let live_len = len;
        let live_loads = w.krill.ca_manager().get_ca(&ca(&target)).is_ok();
        let r = crate::checks::c04::what_if(w, move |w2| {
            let mut out = Vec::new();
            match World::reopen(cfg()) {
                Err(e) => out.push(("reload".into(), e.to_string())),
                Ok(fresh) => {
                    let stored = observable(&fresh);
                    let stored_len = history_len(&fresh, &target);
                    // the entity the operation is about exists for the
                    // running instance exactly if it exists in storage
                    let stored_loads = fresh.krill.ca_manager().get_ca(&ca(&target)).is_ok();
                    if stored_loads != live_loads {
                        out.push(("live-differs-from-stored".into(), format!("CA {target}: the running instance {} it, a fresh instance on the same storage {}", if live_loads { "serves" } else { "does not know" }, if stored_loads { "loads it" } else { "does not find it" })));
                    }
                    if stored != live {
                        out.push(("live-differs-from-stored".into(), format!("the running instance's state differs from what a fresh instance loads from storage: {}", first_diff(&live, &stored, ""))));
                    }
                    if stored_len != live_len {
                        out.push(("live-differs-from-stored".into(), format!("the running instance has CA {target} at version {live_len}, storage replays to {stored_len}")));
                    }
                }
            }
            let _ = w2;
            out
        });
        match r {
            Ok(x) => v.extend(x),
            Err(e) => v.push(("machinery".into(), e)),
        }
    }
    let _ = pre;
    // on a copy: once background work (including the retries an hour later)
    // has run, without any new request, the served files agree with each
    // other and with the repository content
    let r = crate::checks::c04::what_if(w, move |w2| {
        let mut out: Vec<(String, String)> = Vec::new();
        match catch_up(w2) {
            Err(e) => out.push(("fatal".into(), format!("background tasks after the cut: {e}"))),
            Ok(()) => out.extend(
                crate::checks::pubd::files_consistent(w2, true)
                    .into_iter()
                    .map(|(k, d)| (format!("repository-{k}"), format!("after background work and retries, before any new request: {d}"))),
            ),
        }
        out
    });
    match r {
        Ok(x) => v.extend(x),
        Err(e) => v.push(("machinery".into(), e)),
    }
    // background work, then the interrupted request again
    if let Err(e) = w.pump() {
        v.push(("fatal".into(), format!("background tasks after the cut: {e}")));
        return v;
    }
    let o = w.apply_pumped(sc_op);
    let resubmission = format!("re-submission: {}", if o.ok { "accepted".to_string() } else { format!("refused ({})", o.err.clone().unwrap_or_default()) });
    if let Some(f) = o.fatal {
        v.push(("fatal".into(), format!("re-submission: {f}")));
        return v;
    }
    if let Err(e) = catch_up(w) {
        v.push(("fatal".into(), format!("catching up after re-submission: {e}")));
        return v;
    }
    if std::env::var("VERIF_DEBUG").is_ok() {
        let n = std::fs::read_to_string("repo/rrdp/notification.xml").unwrap_or_default();
        eprintln!("DEBUG fresh={fresh_instance} acked={acked} notification={} full_check={:?}", n.chars().take(200).collect::<String>().replace('\n', " "), crate::rp::full_check(w).map(|_| "ok"));
    }
    match crate::rp::full_check(w) {
        Ok(_) => {}
        Err(e) => v.push(("rp".into(), format!("after recovery and re-submission the tree is not relying-party valid: {:?}", e.iter().take(3).collect::<Vec<_>>()))),
    }
    // status records exist only for what exists (C19's invariant, here
    // after a cut)
    v.extend(crate::checks::c19::stale_entries(w).into_iter().map(|(k, d)| (k, format!("after recovery and re-submission: {d}"))));
    let got = observable(w);
    if &got != twin {
        v.push(("diverged".into(), format!("after recovery, background tasks and re-submission the observable state differs from the fault-free run: {} [{resubmission}]", first_diff(twin, &got, ""))));
    }
    v
}

pub fn run(tier: &Tier, args: &[String]) -> i32 {
    let mut out = Outcome::new("C08", tier, "model_checking");
    out.assumptions = vec![
        "cut points are the fault points of hook H3: every key-value mutation (store, move, delete, clear) and every file-system mutation in file.rs, rrdp.rs and rsync.rs; a cut is a crash before the n-th mutation or that mutation failing once; torn writes inside one mutation are not modelled (values are written to a temporary file and renamed)".into(),
        "the cut operation includes the background tasks it triggers (run through the real scheduler step until nothing is due)".into(),
        "equality with the fault-free twin is on the observable projection: configuration, children and entitlements, parents, held resources, key-state kinds per class, relying-party payloads and publication points; key material, serial numbers and class names are not compared".into(),
        "scenario menu: see coverage.scenarios (states: settled three-level tree, rolling CA, rolling parent, a day later, cold caches after a restart)".into(),
    ];
    let only = crate::report::arg_value(args, "--scenario");
    let root = crate::e1run::scratch_root();
    let _guard = crate::e1run::ScratchGuard(root.clone());
    let _ = std::fs::remove_dir_all(&root);
    std::fs::create_dir_all(&root).unwrap();
    let scs: Vec<Scenario> = scenarios(tier.thorough).into_iter().filter(|s| only.as_deref().map(|o| o == s.name).unwrap_or(true)).collect();
    let procs = 16usize;
    let mut evaluations = 0u64;
    let mut per_scenario = Vec::new();
    let mut cut_kinds: BTreeMap<String, u64> = BTreeMap::new();
    // quick tier: scenarios are taken in the order of the list until the
    // wall budget is used up (a scenario that was started is always
    // finished); what was left out is reported, never silently dropped
    let budget = crate::report::arg_value(args, "--cap").and_then(|d| d.parse::<u64>().ok()).unwrap_or(if tier.thorough { 3600 } else { 75 });
    let mut skipped: Vec<&str> = Vec::new();
    for (si, sc) in scs.iter().enumerate() {
        if out.started.elapsed().as_secs() >= budget {
            skipped.push(sc.name);
            continue;
        }
        // phase 1 (one process): build the state, record the mutation log
        // and the twin's observable state
        let dir = root.join(format!("s{si}"));
        std::fs::create_dir_all(&dir).unwrap();
        std::env::set_current_dir(&dir).unwrap();
        let prep = e3::fork_in_dir(&dir, || {
            let mut w = base().expect("base state");
            for op in &sc.prefix {
                let o = w.apply_pumped(op);
                if !o.ok {
                    return json!({"machinery": format!("prefix {op:?}: {:?}", o.err)});
                }
                let _ = w.settle();
            }
            let pre = observable(&w);
            drop(w);
            let clock_offset = crate::clock::offset();
            let keys_used = crate::keys::persistent_used();
            // count + twin on a copy
            let (res, _, d) = e3::fork_in_copy("twin", || {
                crate::keys::skip(64);
                let mut w2 = World::reopen(cfg()).expect("reopen");
                if !sc.cold {
                    // warm caches: read everything once
                    let _ = observable(&w2);
                }
                // (no background work and no reads between these and the
                // cut operation: every read would refresh the cache)
                let pre_len = history_len(&w2, &target_ca(&sc.op)) + sc.before.len() as u64;
                for op in &sc.before {
                    let _ = w2.apply(op);
                }
                e3::arm(Mode::Count, 0);
                let mut o = w2.apply(&sc.op);
                let len_after_apply = history_len(&w2, &target_ca(&sc.op));
                match w2.pump() {
                    Ok(t) => o.tasks = t,
                    Err(f) => o.fatal = Some(f),
                }
                let log = e3::disarm();
                let _ = catch_up(&mut w2);
                let rp_ok = crate::rp::full_check(&w2).map(|_| true).unwrap_or(false);
                json!({"log": log, "ok": (o.ok != sc.rejected) && o.fatal.is_none(), "err": o.err, "twin": observable(&w2), "rp_ok": rp_ok, "pre_len": pre_len, "adds_command": len_after_apply > pre_len})
            });
            let _ = std::fs::remove_dir_all(&d);
            json!({"pre": pre, "count": res, "clock_offset": clock_offset, "keys_used": keys_used})
        });
        let Some(prep) = prep.0 else {
            out.machinery_errors.push(format!("scenario {}: preparation died", sc.name));
            continue;
        };
        if let Some(m) = prep.get("machinery") {
            out.machinery_errors.push(format!("scenario {}: {m}", sc.name));
            continue;
        }
        let count = &prep["count"];
        if count.is_null() || count["ok"] != json!(true) || count["rp_ok"] != json!(true) {
            out.machinery_errors.push(format!("scenario {}: the fault-free run failed: {}", sc.name, count.to_string().chars().take(300).collect::<String>()));
            continue;
        }
        let log: Vec<(String, String)> = serde_json::from_value(count["log"].clone()).unwrap_or_default();
        let twin = count["twin"].clone();
        let pre = prep["pre"].clone();
        let pre_len = count["pre_len"].as_u64().unwrap_or(0);
        let adds_command = count["adds_command"].as_bool().unwrap_or(false);
        let clock_offset = prep["clock_offset"].as_i64().unwrap_or(0);
        let keys_used = prep["keys_used"].as_u64().unwrap_or(0) as usize;
        let n = log.len();
        // phase 2: every cut, in parallel worker processes
        let mut pids = Vec::new();
        for k in 0..procs {
            let outf = root.join(format!("s{si}k{k}.json"));
            use std::io::Write;
            let _ = std::io::stdout().flush();
            let pid = unsafe { libc::fork() };
            if pid == 0 {
                let mut results: Vec<Value> = Vec::new();
                // continue where the preparing process was
                crate::clock::set_offset(clock_offset);
                crate::keys::skip(keys_used);
                let r = std::panic::catch_unwind(std::panic::AssertUnwindSafe(|| {
                    for i in 0..n {
                        if i % procs != k {
                            continue;
                        }
                        for mode in [Mode::Crash, Mode::Fail] {
                            let tag = format!("{}{i}", if mode == Mode::Crash { "c" } else { "f" });
                            let twin2 = twin.clone();
                            let pre2 = pre.clone();
                            let (res_a, code, dir_a) = e3::fork_in_copy(&tag, || {
                                crate::keys::skip(64);
                                let mut w2 = World::reopen(cfg()).expect("reopen");
                                if !sc.cold {
                                    let _ = observable(&w2);
                                }
                                for op in &sc.before {
                                    let _ = w2.apply(op);
                                }
                                e3::arm(mode, i);
                                let o = w2.apply(&sc.op);
                                if o.ok {
                                    let _ = std::fs::write("acked", b"1");
                                }
                                let pumped = w2.pump();
                                let _ = e3::disarm();
                                // only reached in Fail mode
                                let mut v: Vec<(String, String)> = Vec::new();
                                if let Err(f) = pumped {
                                    // the daemon exits on purpose when it
                                    // cannot keep its task queue: what
                                    // follows is a restart
                                    v.push(("exited".into(), f));
                                    return (o.ok, v);
                                }
                                v.extend(recover_and_compare(&mut w2, &sc.op, &twin2, &pre2, pre_len, o.ok, false, adds_command));
                                (o.ok, v)
                            });
                            let exited_in_fail_mode = mode == Mode::Fail
                                && res_a.as_ref().map(|(_, v)| v.iter().any(|(k, _)| k == "exited")).unwrap_or(false);
                            let mut viol: Vec<(String, String)> = Vec::new();
                            match (mode, res_a, code) {
                                (Mode::Crash, None, 77) | (Mode::Fail, Some(_), 0) if mode == Mode::Crash || exited_in_fail_mode => {
                                    let acked = dir_a.join("acked").exists();
                                    let twin3 = twin.clone();
                                    let pre3 = pre.clone();
                                    let (res_v, code_v) = e3::fork_in_dir(&dir_a, || {
                                        crate::keys::skip(128);
                                        let mut v: Vec<(String, String)> = Vec::new();
                                        match World::reopen(cfg()) {
                                            Err(e) => v.push(("reopen-failed".into(), e.to_string())),
                                            Ok(mut w3) => {
                                                // what the daemon does at start-up
                                                if let Err(e) = w3.restart() {
                                                    v.push(("restart-failed".into(), e.to_string()));
                                                } else {
                                                    v.extend(recover_and_compare(&mut w3, &sc.op, &twin3, &pre3, pre_len, acked, true, adds_command));
                                                }
                                            }
                                        }
                                        v
                                    });
                                    match res_v {
                                        Some(x) => viol.extend(x),
                                        None => viol.push(("died-after-crash".into(), format!("the restarted instance died (exit {code_v}) while loading, running its tasks or taking the request again"))),
                                    }
                                }
                                (Mode::Crash, Some(_), _) => viol.push(("machinery".into(), "crash point not reached".into())),
                                (Mode::Fail, Some((_ok, v)), 0) => viol.extend(v),
                                (Mode::Fail, None, c) => viol.push(("died-after-failed-write".into(), format!("the process died (exit {c}) after a single failing write"))),
                                (m, _, c) => viol.push(("machinery".into(), format!("child ended unexpectedly: mode {m:?} code {c}"))),
                            }
                            let _ = std::fs::remove_dir_all(&dir_a);
                            results.push(json!({"n": i, "mode": format!("{mode:?}"), "violations": viol}));
                        }
                    }
                }));
                if r.is_err() {
                    results.push(json!({"machinery": "worker panicked"}));
                }
                let _ = std::fs::write(&outf, serde_json::to_vec(&results).unwrap());
                unsafe { libc::_exit(0) };
            }
            pids.push((pid, outf));
        }
        let mut cuts = 0u64;
        for (pid, outf) in pids {
            let mut st = 0;
            unsafe { libc::waitpid(pid, &mut st, 0) };
            let results: Vec<Value> = std::fs::read(&outf).ok().and_then(|b| serde_json::from_slice(&b).ok()).unwrap_or_else(|| vec![json!({"machinery": "no result"})]);
            for r in results {
                if let Some(m) = r.get("machinery") {
                    out.machinery_errors.push(format!("scenario {}: {m}", sc.name));
                    continue;
                }
                cuts += 1;
                evaluations += 1;
                let i = r["n"].as_u64().unwrap_or(0) as usize;
                let at = log.get(i).cloned().unwrap_or_default();
                *cut_kinds.entry(at.0.clone()).or_default() += 1;
                for viol in r["violations"].as_array().cloned().unwrap_or_default() {
                    let kind = viol[0].as_str().unwrap_or("").to_string();
                    let detail = viol[1].as_str().unwrap_or("").to_string();
                    if kind == "machinery" {
                        out.machinery_errors.push(format!("scenario {} cut {i}: {detail}", sc.name));
                        continue;
                    }
                    let mode = r["mode"].as_str().unwrap_or("");
                    // is the cut between the store of a CA's published-object
                    // set by the pre-save listener and the store of the
                    // command that caused it?
                    let mut window = String::new();
                    for j in (0..i).rev() {
                        let (k, d) = &log[j];
                        if k == "kv.store" && d.contains("/command-") {
                            break;
                        }
                        if k == "kv.store" && d.starts_with('/') && d.ends_with(".json") && !d[1..].contains('/') {
                            window = format!(" window=listener-ahead:{}", d.trim_start_matches('/').trim_end_matches(".json"));
                            break;
                        }
                    }
                    // the place of the cut, without run-specific parts
                    let place = crate::e1::normalize(&at.1);
                    out.findings.push(Finding {
                        signature: format!("{kind}|{} @ scenario={} mode={mode}{window} at={}:{place}", crate::e1::normalize(&detail), sc.name, at.0),
                        text: format!("[{}] {mode} before mutation #{i} ({} {}): {kind}: {detail}", sc.name, at.0, at.1),
                        replay: json!({"scenario": sc.name, "cut": i, "mode": mode, "at": at, "kind": kind, "detail": detail}),
                    });
                }
            }
        }
        per_scenario.push(json!({"scenario": sc.name, "cold": sc.cold, "operation": sc.op, "mutations": n, "cuts": cuts, "mutation_log": log.iter().map(|(k, d)| format!("{k} {}", crate::e1::normalize(d))).collect::<Vec<_>>()}));
        std::env::set_current_dir(&root).unwrap();
        let _ = std::fs::remove_dir_all(&dir);
    }
    // group identical findings (same kind+detail class at several cuts)
    let mut grouped: BTreeMap<String, (Finding, usize)> = BTreeMap::new();
    for f in std::mem::take(&mut out.findings) {
        let key = f.signature.split(" at=").next().unwrap_or("").to_string();
        grouped.entry(key).and_modify(|e| e.1 += 1).or_insert((f, 1));
    }
    for (_, (mut f, nocc)) in grouped {
        if nocc > 1 {
            f.text = format!("{} ({} cuts in all)", f.text, nocc);
        }
        out.findings.push(f);
    }
    out.coverage = json!({
        "evaluations": evaluations,
        "distinct_nontrivial": evaluations,
        "states": scs.len(),
        "transitions": evaluations,
        "traces_validated_against_impl": evaluations,
        "rule": "every scenario x every mutation index of the operation and its background tasks x {crash before it, that mutation failing once}; the survivor (fresh instance after the crash; the same instance after the failing write) must load every entity, have consistent repository files, not have lost an acknowledged command, hold in memory what storage replays to, and after background tasks, re-submission and settling equal the fault-free twin on the observable projection and be relying-party valid",
        "scenarios": per_scenario,
        "cut_kinds": cut_kinds,
        "exhaustive": skipped.is_empty(),
        "cap_hit": !skipped.is_empty(),
        "wall_budget_s": budget,
        "scenarios_not_started_within_budget": skipped,
    });
    out.finish()
}
