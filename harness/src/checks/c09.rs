//! C09 — Background work is durable, recurring maintenance never stops.
//!
//! (a) BFS over operation sequences on the real `Queue` against a reference
//!     queue; (b) same on `TaskQueue` including the restart logic;
//! (c) E1 on a world: crash while a task is running / pending, restart,
//!     recurring tasks present again and effects happen.

use std::collections::{BTreeMap, HashSet, VecDeque};
use std::sync::atomic::Ordering;

use krill::commons::queue::{Queue, ScheduleMode};
use krill::commons::storage::{Ident, StorageSystem};
use krill::server::mq::{Priority, Task, TaskQueue};
use serde::{Deserialize, Serialize};
use serde_json::json;

use crate::checks::c01;
use crate::clock;
use crate::e1::{Header, Model};
use crate::e1run::{self, Config, Spec};
use crate::ops::{Op, OpOutcome};
use crate::report::{Finding, Outcome, Tier};
use crate::world::{World, WorldCfg, res};

//------------ (a) Queue vs reference ----------------------------------------

#[derive(Clone, Debug, Serialize, Deserialize, PartialEq, Eq, Hash)]
pub enum QOp {
    /// name index, delay seconds, mode index
    Schedule(u8, u32, u8),
    Claim,
    /// index into the sorted list of running keys
    Finish(u8),
    Reschedule(u8, Option<u32>),
    Tick(u32),
}

const MODES: [ScheduleMode; 5] = [
    ScheduleMode::ReplaceExistingSoonest,
    ScheduleMode::FinishOrReplaceExistingSoonest,
    ScheduleMode::IfMissing,
    ScheduleMode::ReplaceExisting,
    ScheduleMode::FinishOrReplaceExisting,
];
const MODE_NAMES: [&str; 5] = [
    "ReplaceExistingSoonest",
    "FinishOrReplaceExistingSoonest",
    "IfMissing",
    "ReplaceExisting",
    "FinishOrReplaceExisting",
];
const NAMES: [&str; 2] = ["a", "b"];

/// Reference queue: multisets keyed by name.
#[derive(Clone, Debug, Default)]
struct RefQueue {
    /// (name, ts_ms)
    pending: Vec<(String, i128)>,
    /// (key, name)
    running: Vec<(String, String)>,
}

impl RefQueue {
    /// pending entries are keyed by (time, name): adding an identical entry
    /// is idempotent (same work at the same time)
    fn add_pending(&mut self, name: &str, ts: i128) {
        if !self.pending.iter().any(|p| p.0 == name && p.1 == ts) {
            self.pending.push((name.to_string(), ts));
        }
    }
    fn min_pending(&self, name: &str) -> Option<i128> {
        self.pending.iter().filter(|p| p.0 == name).map(|p| p.1).min()
    }
    fn count_pending(&self, name: &str) -> usize {
        self.pending.iter().filter(|p| p.0 == name).count()
    }
    fn remove_one_pending(&mut self, name: &str) -> Option<i128> {
        // only called when at most one entry exists, or for soonest modes
        // where the choice does not change min()
        let idx = self.pending.iter().position(|p| p.0 == name)?;
        Some(self.pending.remove(idx).1)
    }
    /// "finish the old task if it is running": if several tasks of the name
    /// are running (a pending one was claimed while another still ran) it is
    /// not defined which one goes; follow the real queue, provided exactly
    /// one is gone.
    fn remove_one_running_like(&mut self, name: &str, real_running_keys: &[String]) -> Result<(), String> {
        let mine: Vec<String> = self.running.iter().filter(|r| r.1 == name).map(|r| r.0.clone()).collect();
        if mine.is_empty() {
            return Ok(());
        }
        let gone: Vec<&String> = mine.iter().filter(|k| !real_running_keys.contains(k)).collect();
        if gone.len() != 1 {
            return Err(format!("'finish if running' for '{name}': running before {mine:?}, the queue now has {real_running_keys:?}"));
        }
        let idx = self.running.iter().position(|r| &r.0 == gone[0]).unwrap();
        self.running.remove(idx);
        Ok(())
    }
}

fn list(storage: &StorageSystem, ns: &Ident, scope: &str) -> Vec<(i128, String, String)> {
    let kv = storage.open(ns).unwrap();
    let scope = Ident::boxed_from_string(scope.to_string()).unwrap();
    let mut res = Vec::new();
    for key in kv.keys(Some(&scope), "").unwrap_or_default() {
        let s = key.to_string();
        if let Some((ts, name)) = s.split_once('-') {
            res.push((ts.parse::<i128>().unwrap(), name.to_string(), s.clone()));
        }
    }
    res.sort();
    res
}

struct QSys {
    storage: StorageSystem,
    q: Queue,
    r: RefQueue,
}

const QNS: &Ident = Ident::make("vq");

fn q_new() -> QSys {
    let storage = StorageSystem::new_memory(None);
    let q = Queue::create(&storage, QNS).unwrap();
    QSys { storage, q, r: RefQueue::default() }
}

/// Applies one op to both; returns a violation text if they disagree.
fn q_apply(s: &mut QSys, op: &QOp) -> Result<(), String> {
    let now = clock::now_millis();
    let val = json!("v");
    match op {
        QOp::Schedule(n, delay, m) => {
            let name = NAMES[*n as usize];
            let ts = now + (*delay as i128) * 1000;
            let ident = Ident::boxed_from_string(name.to_string()).unwrap();
            s.q.schedule_task(&ident, &val, Some(ts as u128), MODES[*m as usize])
                .map_err(|e| format!("schedule failed: {e}"))?;
            match *m {
                0 => {
                    let old = s.r.remove_one_pending(name);
                    let t = old.map(|o| o.min(ts)).unwrap_or(ts);
                    s.r.add_pending(name, t);
                }
                1 => {
                    let real: Vec<String> = list(&s.storage, QNS, "running").into_iter().filter(|x| x.1 == name).map(|x| x.2).collect();
                    s.r.remove_one_running_like(name, &real)?;
                    let old = s.r.remove_one_pending(name);
                    let t = old.map(|o| o.min(ts)).unwrap_or(ts);
                    s.r.add_pending(name, t);
                }
                2 => {
                    if s.r.count_pending(name) == 0
                        && !s.r.running.iter().any(|r| r.1 == name)
                    {
                        s.r.add_pending(name, ts);
                    }
                }
                3 => {
                    s.r.remove_one_pending(name);
                    s.r.add_pending(name, ts);
                }
                _ => {
                    let real: Vec<String> = list(&s.storage, QNS, "running").into_iter().filter(|x| x.1 == name).map(|x| x.2).collect();
                    s.r.remove_one_running_like(name, &real)?;
                    s.r.remove_one_pending(name);
                    s.r.add_pending(name, ts);
                }
            }
        }
        QOp::Claim => {
            let due: Vec<_> =
                s.r.pending.iter().filter(|p| p.1 <= now).cloned().collect();
            let got = s
                .q
                .claim_scheduled_pending_task()
                .map_err(|e| format!("claim failed: {e}"))?;
            match (&got, due.is_empty()) {
                (None, true) => {}
                (None, false) => {
                    return Err(format!(
                        "claim returned nothing although due tasks exist: {due:?}"
                    ));
                }
                (Some((key, _)), true) => {
                    return Err(format!("claim returned {key} although nothing is due"));
                }
                (Some((key, _)), false) => {
                    let min_ts = due.iter().map(|d| d.1).min().unwrap();
                    let key_s = key.to_string();
                    let name = key_s.split_once('-').unwrap().1.to_string();
                    // it must be one of the earliest due tasks
                    let ok = due.iter().any(|d| d.1 == min_ts && d.0 == name);
                    if !ok {
                        return Err(format!(
                            "claim handed out '{name}' but the earliest due task(s) are {:?}",
                            due.iter().filter(|d| d.1 == min_ts).collect::<Vec<_>>()
                        ));
                    }
                    let idx = s
                        .r
                        .pending
                        .iter()
                        .position(|p| p.0 == name && p.1 == min_ts)
                        .unwrap();
                    s.r.pending.remove(idx);
                    s.r.running.push((key_s, name));
                }
            }
        }
        QOp::Finish(i) => {
            let mut keys: Vec<_> = s.r.running.iter().map(|r| r.0.clone()).collect();
            keys.sort();
            let Some(key) = keys.get(*i as usize) else { return Ok(()) };
            let ident = Ident::boxed_from_string(key.clone()).unwrap();
            s.q.finish_running_task(&ident)
                .map_err(|e| format!("finish of running task {key} failed: {e}"))?;
            let idx = s.r.running.iter().position(|r| &r.0 == key).unwrap();
            s.r.running.remove(idx);
        }
        QOp::Reschedule(i, delay) => {
            let mut keys: Vec<_> = s.r.running.iter().map(|r| r.0.clone()).collect();
            keys.sort();
            let Some(key) = keys.get(*i as usize) else { return Ok(()) };
            let ident = Ident::boxed_from_string(key.clone()).unwrap();
            let ts = delay.map(|d| now + d as i128 * 1000);
            s.q.reschedule_running_task(&ident, ts.map(|t| t as u128))
                .map_err(|e| format!("reschedule of running task {key} failed: {e}"))?;
            let idx = s.r.running.iter().position(|r| &r.0 == key).unwrap();
            let (_, name) = s.r.running.remove(idx);
            s.r.add_pending(&name, ts.unwrap_or(now));
        }
        QOp::Tick(secs) => clock::advance(*secs as i64),
    }
    q_compare(s)
}

fn q_compare(s: &QSys) -> Result<(), String> {
    let pend = list(&s.storage, QNS, "pending");
    let run = list(&s.storage, QNS, "running");
    for name in NAMES {
        let real_min = pend.iter().filter(|p| p.1 == name).map(|p| p.0).min();
        let ref_min = s.r.min_pending(name);
        if real_min != ref_min {
            return Err(format!(
                "pending '{name}': queue has earliest time {real_min:?}, reference {ref_min:?} (queue pending {:?})",
                pend.iter().map(|p| &p.2).collect::<Vec<_>>()
            ));
        }
        let real_run = run.iter().filter(|p| p.1 == name).count();
        let ref_run = s.r.running.iter().filter(|r| r.1 == name).count();
        if real_run != ref_run {
            return Err(format!(
                "running '{name}': queue has {real_run}, reference {ref_run}"
            ));
        }
    }
    Ok(())
}

fn q_canon(s: &QSys) -> String {
    let now = clock::now_millis();
    let mut p: Vec<String> = s
        .r
        .pending
        .iter()
        .map(|x| format!("{}@{}", x.0, x.1 - now))
        .collect();
    p.sort();
    let mut r: Vec<String> = s
        .r
        .running
        .iter()
        .map(|x| {
            let ts: i128 = x.0.split_once('-').unwrap().0.parse().unwrap();
            format!("{}@{}", x.1, ts - now)
        })
        .collect();
    r.sort();
    format!("{p:?}|{r:?}")
}

fn q_enabled(s: &QSys, quick: bool) -> Vec<QOp> {
    let mut ops = Vec::new();
    let modes: &[u8] = if quick { &[0, 1, 2] } else { &[0, 1, 2, 3, 4] };
    for n in 0..NAMES.len() as u8 {
        for d in [0u32, 60] {
            for m in modes {
                // plain replace modes are only defined for <= 1 pending entry
                if *m >= 3 && s.r.count_pending(NAMES[n as usize]) > 1 {
                    continue;
                }
                ops.push(QOp::Schedule(n, d, *m));
            }
        }
    }
    ops.push(QOp::Claim);
    for i in 0..s.r.running.len().min(2) as u8 {
        ops.push(QOp::Finish(i));
        ops.push(QOp::Reschedule(i, None));
        ops.push(QOp::Reschedule(i, Some(60)));
    }
    ops.push(QOp::Tick(61));
    ops
}

pub struct BfsStats {
    pub states: u64,
    pub transitions: u64,
    pub max_depth: usize,
    pub samples: Vec<serde_json::Value>,
    pub violation: Option<(Vec<QOp>, String)>,
}

fn q_build(hist: &[QOp]) -> (QSys, Result<(), String>) {
    clock::set_offset(0);
    let mut s = q_new();
    let mut res = Ok(());
    for op in hist {
        res = q_apply(&mut s, op);
        if res.is_err() {
            break;
        }
    }
    (s, res)
}

pub fn queue_bfs(depth: usize, quick: bool) -> BfsStats {
    let mut seen: HashSet<String> = HashSet::new();
    let mut frontier: VecDeque<Vec<QOp>> = VecDeque::new();
    let (s0, _) = q_build(&[]);
    seen.insert(q_canon(&s0));
    frontier.push_back(vec![]);
    let mut st = BfsStats { states: 1, transitions: 0, max_depth: 0, samples: vec![], violation: None };
    while let Some(hist) = frontier.pop_front() {
        if hist.len() >= depth {
            continue;
        }
        let (s, _) = q_build(&hist);
        for op in q_enabled(&s, quick) {
            let mut h = hist.clone();
            h.push(op.clone());
            // The state is rebuilt by re-running the history on a fresh
            // store. Which of several tasks with the same time stamp a claim
            // hands out follows the key order of krill's memory store (a hash
            // map), so the rebuilt state may differ from the one the
            // operation was enabled in: enable and apply in the same build.
            let (mut s2, res0) = q_build(&hist);
            if res0.is_err() || !q_enabled(&s2, quick).contains(&op) {
                continue;
            }
            let res = q_apply(&mut s2, &op);
            st.transitions += 1;
            if let Err(e) = res {
                st.violation = Some((h, e));
                return st;
            }
            let k = q_canon(&s2);
            if seen.insert(k) {
                st.states += 1;
                st.max_depth = st.max_depth.max(h.len());
                if st.samples.len() < 6 && h.len() == depth {
                    st.samples.push(json!(h));
                }
                frontier.push_back(h);
            }
        }
    }
    st
}

//------------ (b) TaskQueue restart logic ------------------------------------

#[derive(Clone, Debug, Serialize, Deserialize, PartialEq, Eq, Hash)]
pub enum TOp {
    Schedule(u8),
    ScheduleMissing(u8),
    Pop,
    FinishFirst,
    Startup,
}

fn tasks() -> [Task; 3] {
    [
        Task::SyncRepo { ca_handle: crate::world::ca("a"), ca_version: 0 },
        Task::RepublishIfNeeded,
        Task::UpdateSnapshots,
    ]
}

struct TSys {
    storage: StorageSystem,
    tq: TaskQueue,
}

fn t_build(hist: &[TOp]) -> (TSys, Result<(), String>) {
    clock::set_offset(0);
    let storage = StorageSystem::new_memory(None);
    let tq = TaskQueue::new(&storage).unwrap();
    let s = TSys { storage, tq };
    let ns = krill::constants::TASK_QUEUE_NS;
    let now_p = || -> Priority { krill::server::mq::now() };
    for op in hist {
        match op {
            TOp::Schedule(i) => {
                s.tq.schedule(tasks()[*i as usize].clone(), now_p()).unwrap();
            }
            TOp::ScheduleMissing(i) => {
                s.tq.schedule_missing(tasks()[*i as usize].clone(), now_p()).unwrap();
            }
            TOp::Pop => {
                let _ = s.tq.pop();
            }
            TOp::FinishFirst => {
                let run = list(&s.storage, ns, "running");
                if let Some(first) = run.first() {
                    let key = Ident::boxed_from_string(first.2.clone()).unwrap();
                    if let Err(e) = s.tq.finish(&key) {
                        return (s, Err(format!("finish failed: {e}")));
                    }
                }
            }
            TOp::Startup => {
                let before_run = list(&s.storage, ns, "running");
                // what StartupManager::run_scheduler does before spawning
                if let Err(e) = s.tq.reschedule_tasks_at_startup() {
                    return (s, Err(format!("reschedule_tasks_at_startup failed: {e}")));
                }
                if let Err(e) = s.tq.schedule(Task::QueueStartTasks, now_p()) {
                    return (s, Err(format!("schedule(QueueStartTasks) failed: {e}")));
                }
                let after_run = list(&s.storage, ns, "running");
                let after_pend = list(&s.storage, ns, "pending");
                let now = clock::now_millis();
                // every task that was running when the daemon stopped must be
                // pending (due) again, and nothing may be left "running"
                for r in &before_run {
                    if r.1 == "queue_start_tasks" {
                        continue;
                    }
                    let requeued = after_pend.iter().any(|p| p.1 == r.1 && p.0 <= now);
                    if !requeued {
                        return (s, Err(format!(
                            "task '{}' was running at restart with {} task(s) in the running state; after start-up it is not pending (running now: {:?}, pending now: {:?})",
                            r.1, before_run.len(),
                            after_run.iter().map(|x| &x.1).collect::<Vec<_>>(),
                            after_pend.iter().map(|x| &x.1).collect::<Vec<_>>()
                        )));
                    }
                }
                for r in &after_run {
                    if r.1 != "queue_start_tasks" {
                        return (s, Err(format!(
                            "after start-up task '{}' is still marked running ({} running before start-up)",
                            r.1, before_run.len()
                        )));
                    }
                }
                // and a later schedule_missing of the same task must not be
                // swallowed by a stale running entry: covered by the above.
            }
        }
    }
    (s, Ok(()))
}

fn t_canon(s: &TSys) -> String {
    let ns = krill::constants::TASK_QUEUE_NS;
    let p: Vec<String> = list(&s.storage, ns, "pending").into_iter().map(|x| x.1).collect();
    let r: Vec<String> = list(&s.storage, ns, "running").into_iter().map(|x| x.1).collect();
    format!("{p:?}|{r:?}")
}

pub fn taskqueue_bfs(depth: usize) -> (u64, u64, Vec<serde_json::Value>, Option<(Vec<TOp>, String)>, BTreeMap<usize, u64>) {
    let mut seen: HashSet<String> = HashSet::new();
    let mut frontier: VecDeque<Vec<TOp>> = VecDeque::new();
    let (s0, _) = t_build(&[]);
    seen.insert(t_canon(&s0));
    frontier.push_back(vec![]);
    let (mut states, mut trans) = (1u64, 0u64);
    let mut samples = Vec::new();
    // how often Startup was exercised with k running tasks
    let mut startup_with_running: BTreeMap<usize, u64> = BTreeMap::new();
    let mut ops = vec![TOp::Pop, TOp::FinishFirst, TOp::Startup];
    for i in 0..3u8 {
        ops.push(TOp::Schedule(i));
        ops.push(TOp::ScheduleMissing(i));
    }
    while let Some(hist) = frontier.pop_front() {
        if hist.len() >= depth {
            continue;
        }
        for op in &ops {
            let mut h = hist.clone();
            if *op == TOp::Startup {
                let (s, _) = t_build(&hist);
                let n = list(&s.storage, krill::constants::TASK_QUEUE_NS, "running").len();
                *startup_with_running.entry(n).or_default() += 1;
            }
            h.push(op.clone());
            let (s2, res) = t_build(&h);
            trans += 1;
            if let Err(e) = res {
                return (states, trans, samples, Some((h, e)), startup_with_running);
            }
            if seen.insert(t_canon(&s2)) {
                states += 1;
                if samples.len() < 4 && h.len() == depth {
                    samples.push(json!(h));
                }
                frontier.push_back(h);
            }
        }
    }
    (states, trans, samples, None, startup_with_running)
}

//------------ (c) world: crash with running / pending tasks, restart --------

#[derive(Clone)]
pub struct C09Model {
    pub inner: c01::C01Model,
    pub running_before_restart: Vec<String>,
}

/// Harness-level operation encoded in Op::Tick with magic values would be
/// ugly; we use SyncRepo/Step/Restart plus "ClaimAndCrash" expressed as
/// Op::Tick{secs: -1}.
pub const CLAIM_AND_CRASH: Op = Op::Tick { secs: -1 };

impl Model for C09Model {
    fn alphabet(&mut self, _w: &World, _depth: usize, _path: &[Op]) -> Vec<Op> {
        let c = || "ca".to_string();
        vec![
            Op::Roa { ca: c(), add: vec![c01::ROA_A.into()], del: vec![] },
            Op::Roa { ca: c(), add: vec![], del: vec![c01::ROA_A.into()] },
            Op::Entitle {
                parent: "parent".into(),
                child: c(),
                res: crate::ops::r3("AS65000", "10.0.0.0/16", ""),
            },
            Op::RollInit { ca: c() },
            Op::RollActivate { ca: c() },
            CLAIM_AND_CRASH,
            Op::Step,
            Op::Restart,
        ]
    }

    fn apply(&mut self, w: &mut World, op: &Op) -> OpOutcome {
        if *op == CLAIM_AND_CRASH {
            // the daemon picks a task and dies before doing anything
            let got = w.krill.tasks().pop();
            return OpOutcome {
                ok: got.is_some(),
                err: None,
                tasks: got.map(|g| vec![format!("{}:claimed-then-crash", g.0)]).unwrap_or_default(),
                fatal: None,
            };
        }
        if *op == Op::Restart {
            self.running_before_restart =
                w.running_tasks().into_iter().map(|t| t.1).collect();
        }
        // no pump: tasks stay pending until Step / Restart
        w.apply(op)
    }

    fn check(
        &mut self, w: &mut World, path: &[Op], out: &OpOutcome, hdr: &Header,
    ) -> Vec<(String, String)> {
        let op = path.last().unwrap();
        self.inner.intent.update(op, out);
        if let Some(f) = &out.fatal {
            return vec![("fatal".into(), f.clone())];
        }
        if *op != Op::Restart {
            return vec![];
        }
        if !out.ok {
            return vec![("restart-failed".into(), out.err.clone().unwrap_or_default())];
        }
        let before_running = self.running_before_restart.clone();
        hdr.counters[6 + before_running.len().min(3)].fetch_add(1, Ordering::Relaxed);
        // after a start every follow-up must eventually run and the recurring
        // tasks must be queued again
        if let Err(f) = w.pump() {
            return vec![("fatal".into(), f)];
        }
        let mut v = Vec::new();
        let pend: Vec<String> = w.pending_tasks().into_iter().map(|t| t.1).collect();
        let run: Vec<String> = w.running_tasks().into_iter().map(|t| t.1).collect();
        for r in &run {
            v.push((
                "stuck-running".into(),
                format!(
                    "task '{r}' still marked running after restart + pump ({} running at restart: {before_running:?})",
                    before_running.len()
                ),
            ));
        }
        let mut needed = vec![
            "all_cas_republish_if_needed".to_string(),
            "all_cas_renew_objects_if_needed".to_string(),
            "update_stored_snapshots".to_string(),
            "renew_testbed_ta".to_string(),
        ];
        let cm = w.krill.ca_manager();
        for h in cm.ca_handles().unwrap_or_default() {
            if let Ok(c) = cm.get_ca(&h) {
                for p in c.parents() {
                    needed.push(format!("sync_{h}_with_parent_{p}"));
                }
            }
        }
        for n in needed {
            if !pend.contains(&n) {
                v.push((
                    "recurring-missing".into(),
                    format!(
                        "recurring task '{n}' is not scheduled after restart + pump ({} running at restart: {before_running:?})",
                        before_running.len()
                    ),
                ));
            }
        }
        if !v.is_empty() {
            return v;
        }
        // effects: the C01 oracle must hold now
        let mut inner_out = out.clone();
        inner_out.fatal = None;
        // (intent already updated above; avoid double update)
        let saved = self.inner.intent.clone();
        let r = self.inner.check(w, &[Op::Pump], &inner_out, hdr);
        self.inner.intent = saved;
        r
    }
}

//------------ (d) the real start-up path -------------------------------------

/// Builds a world, brings it into a "crashed with these tasks running" state,
/// then starts it through the real `StartupManager::run_scheduler` (real
/// scheduler thread, real loop), waits for quiescence, stops the threads and
/// evaluates the restart oracle. Runs in a forked child (threads!).
fn real_startup_case(running: &[&str]) -> Vec<(String, String)> {
    use krill::commons::storage::StorageSystem;
    use krill::server::manager::StartupManager;
    let f = c01::full_ca_res();
    let mut w = match World::build_w2(WorldCfg::default(), res(&f.0, &f.1, &f.2)) {
        Ok(w) => w,
        Err(e) => return vec![("machinery".into(), format!("build: {e}"))],
    };
    // a daemon that has been running: recurring tasks queued
    if let Err(e) = w.restart() {
        return vec![("machinery".into(), format!("first start: {e}"))];
    }
    if let Err(e) = w.pump() {
        return vec![("machinery".into(), format!("first pump: {e}"))];
    }
    // make the wanted tasks running (claimed, then the daemon dies)
    for name in running {
        let task = match *name {
            "queue_start_tasks" => Task::QueueStartTasks,
            "sync_repo_ca" => Task::SyncRepo { ca_handle: crate::world::ca("ca"), ca_version: 0 },
            "update_stored_snapshots" => Task::UpdateSnapshots,
            other => return vec![("machinery".into(), format!("unknown task {other}"))],
        };
        // due tasks are handed out earliest first: make this one the only due one
        if let Err(e) = w.krill.tasks().schedule(task, krill::server::mq::now()) {
            return vec![("machinery".into(), format!("schedule: {e}"))];
        }
        match w.krill.tasks().pop() {
            Some((key, _)) if key.as_str().ends_with(name) => {}
            other => {
                return vec![(
                    "machinery".into(),
                    format!("expected to claim {name}, got {:?}", other.map(|o| o.0.to_string())),
                )];
            }
        }
    }
    let before_running: Vec<String> = w.running_tasks().into_iter().map(|t| t.1).collect();
    let config = w.config.clone();
    let tokio = w.tokio.clone();
    drop(w);
    // ---- the real thing
    let storage = StorageSystem::new(config.storage_uri.clone());
    let mut sm = match StartupManager::new(config.clone(), storage, tokio.handle().clone()) {
        Ok(sm) => sm,
        Err(e) => return vec![("restart-failed".into(), e.to_string())],
    };
    if let Err(e) = sm.run_scheduler() {
        return vec![("restart-failed".into(), e.to_string())];
    }
    // wait (real time) until nothing is due and nothing is running any more,
    // or give up after 20 s
    let probe = World::reopen(WorldCfg::default());
    let probe = match probe {
        Ok(p) => p,
        Err(e) => return vec![("machinery".into(), format!("probe: {e}"))],
    };
    let t0 = std::time::Instant::now();
    let mut stable = 0;
    loop {
        clock::real_sleep_ms(100);
        let due = probe.next_due_in().map(|d| d <= 0).unwrap_or(false);
        let run_now = probe.running_tasks();
        // a stale running entry never goes away: accept "no due task" for 1 s
        if !due {
            stable += 1;
        } else {
            stable = 0;
        }
        if (stable >= 10 && (run_now.is_empty() || stable >= 20))
            || t0.elapsed().as_secs() > 20
        {
            break;
        }
    }
    let (_manager, pool) = match sm.promote() {
        Ok(x) => x,
        Err(e) => return vec![("machinery".into(), format!("promote: {e}"))],
    };
    pool.terminate();
    // ---- oracle (same as after a harness restart + pump)
    let mut v = Vec::new();
    let pend: Vec<String> = probe.pending_tasks().into_iter().map(|t| t.1).collect();
    let run: Vec<String> = probe.running_tasks().into_iter().map(|t| t.1).collect();
    for r in &run {
        v.push((
            "stuck-running".into(),
            format!("real start-up: task '{r}' still marked running after the scheduler went idle (running at crash: {before_running:?})"),
        ));
    }
    let mut needed = vec![
        "all_cas_republish_if_needed".to_string(),
        "all_cas_renew_objects_if_needed".to_string(),
        "update_stored_snapshots".to_string(),
        "renew_testbed_ta".to_string(),
        "sync_ca_with_parent_parent".to_string(),
        "sync_parent_with_parent_ta".to_string(),
    ];
    needed.sort();
    for n in needed {
        if !pend.contains(&n) {
            v.push((
                "recurring-missing".into(),
                format!("real start-up: recurring task '{n}' is not scheduled after the scheduler went idle (running at crash: {before_running:?}; pending: {pend:?})"),
            ));
        }
    }
    v
}

pub fn real_startup_cases(out: &mut Outcome, thorough: bool) -> (u64, Vec<serde_json::Value>) {
    let mut cases: Vec<Vec<&str>> = vec![
        vec![],
        vec!["sync_repo_ca"],
        vec!["queue_start_tasks"],
    ];
    if thorough {
        cases.push(vec!["queue_start_tasks", "sync_repo_ca"]);
        cases.push(vec!["update_stored_snapshots"]);
        cases.push(vec!["sync_repo_ca", "update_stored_snapshots"]);
    }
    let root = e1run::scratch_root().with_extension("rs");
    let _g = e1run::ScratchGuard(root.clone());
    let mut n = 0;
    let mut samples = Vec::new();
    // run the cases in parallel children
    let mut pids = Vec::new();
    for (i, case) in cases.iter().enumerate() {
        let dir = root.join(format!("c{i}"));
        let _ = std::fs::remove_dir_all(&dir);
        std::fs::create_dir_all(&dir).unwrap();
        let outf = root.join(format!("c{i}.json"));
        use std::io::Write;
        let _ = std::io::stdout().flush();
        let pid = unsafe { libc::fork() };
        if pid == 0 {
            std::env::set_current_dir(&dir).unwrap();
            let r = std::panic::catch_unwind(|| real_startup_case(case));
            let v = match r {
                Ok(v) => v,
                Err(p) => vec![("panic".to_string(), crate::e1::panic_message(&p))],
            };
            let _ = std::fs::write(&outf, serde_json::to_vec(&v).unwrap());
            unsafe { libc::_exit(0) };
        }
        pids.push((pid, outf, case.clone()));
    }
    for (pid, outf, case) in pids {
        let mut st = 0;
        unsafe { libc::waitpid(pid, &mut st, 0) };
        n += 1;
        samples.push(json!({"running_at_crash": case, "path": "StartupManager::run_scheduler + real scheduler thread"}));
        let res: Vec<(String, String)> = std::fs::read(&outf)
            .ok()
            .and_then(|b| serde_json::from_slice(&b).ok())
            .unwrap_or_else(|| vec![("machinery".into(), format!("case {case:?}: no result (status {st:#x})"))]);
        for (k, d) in res {
            if k == "machinery" {
                out.machinery_errors.push(format!("real start-up case {case:?}: {d}"));
            } else {
                out.findings.push(Finding {
                    signature: format!("real-startup-{k}|{} @ running={case:?}", crate::e1::normalize(&d)),
                    text: format!("{k}: {d}"),
                    replay: json!({"part": "real-startup", "running_at_crash": case, "kind": k, "detail": d}),
                });
            }
        }
    }
    (n, samples)
}

//------------ (e) the real loop against the stand-in ------------------------

/// What a drained world looks like: canonical state and queue.
fn drained_view(w: &World) -> serde_json::Value {
    json!({
        "state": crate::fingerprint::canonical(w),
        "queue": crate::fingerprint::queue_json(w),
    })
}

/// Scenarios that leave work in the queue; between them they make tasks end
/// in all three ways (done, follow-up, reschedule).
fn loop_scenarios(thorough: bool) -> Vec<(&'static str, Vec<Op>)> {
    let c = || "ca".to_string();
    let p = || "parent".to_string();
    let day = Op::Tick { secs: 86_400 + 60 };
    let mut v = vec![
        ("roa-added", vec![Op::Roa { ca: c(), add: vec![c01::ROA_A.into()], del: vec![] }]),
        ("entitlement-shrunk", vec![
            Op::Roa { ca: c(), add: vec![c01::ROA_A.into(), c01::ROA_C.into()], del: vec![] },
            Op::Entitle { parent: p(), child: c(), res: crate::ops::r3("AS65000", "10.0.0.0/16", "") },
        ]),
        ("publisher-removed", vec![
            Op::RemovePublisher { publisher: c() },
            Op::Roa { ca: c(), add: vec![c01::ROA_A.into()], del: vec![] },
        ]),
        ("a-day-later", vec![day.clone()]),
        ("child-removed-a-day-later", vec![Op::RemoveChild { parent: p(), child: c() }, day.clone()]),
        ("roll-started", vec![Op::RollInit { ca: c() }]),
    ];
    if thorough {
        v.push(("publisher-removed-a-day-later", vec![
            Op::RemovePublisher { publisher: c() },
            Op::Roa { ca: c(), add: vec![c01::ROA_B.into()], del: vec![] },
            day.clone(),
        ]));
        v.push(("shrunk-and-rolling", vec![
            Op::Roa { ca: c(), add: vec![c01::ROA_A.into(), c01::ROA_C.into()], del: vec![] },
            Op::RollInit { ca: c() },
            Op::Entitle { parent: p(), child: c(), res: crate::ops::r3("AS65000", "10.0.0.0/16", "") },
        ]));
        v.push(("suspended-child-a-day-later", vec![
            Op::Suspend { parent: p(), child: c() },
            Op::Roa { ca: c(), add: vec![c01::ROA_A.into()], del: vec![] },
            day.clone(),
        ]));
        v.push(("parent-rolls-child-changes", vec![
            Op::RollInit { ca: p() },
            Op::Roa { ca: c(), add: vec![c01::ROA_D.into()], del: vec![] },
            Op::AspaSet { ca: c(), customer: 65000, providers: vec![65001] },
        ]));
    }
    v
}

/// One scenario, in a forked child whose directory is private: builds the
/// state, then drains it twice from the same point - once with the stand-in
/// (`verif_step`, what every world-based check uses) and once with the real
/// `scheduler::run` loop on its own thread - and writes both views.
fn loop_scenario_child(ops: &[Op], outf: &std::path::Path) {
    use std::io::Write;
    let res: Result<serde_json::Value, String> = (|| {
        let mut w = c01::build_w3(c01::world_cfg(100, 90))?;
        w.restart().map_err(|e| e.to_string())?;
        w.pump()?;
        w.settle()?;
        for op in ops {
            let o = w.apply(op);
            if !o.ok {
                return Err(format!("set-up op {op} failed: {:?}", o.err));
            }
        }
        let due_before: Vec<String> = w
            .pending_tasks()
            .into_iter()
            .filter(|t| (t.0 as i128) <= clock::now_millis())
            .map(|t| t.1)
            .collect();
        let here = std::env::current_dir().map_err(|e| e.to_string())?;
        let mut views = Vec::new();
        let mut results_a = serde_json::Value::Null;
        for twin in ["stand-in", "real-loop"] {
            let dir = here.with_file_name(format!(
                "{}-{twin}",
                here.file_name().unwrap().to_string_lossy()
            ));
            let vf = dir.with_extension("json");
            let _ = std::io::stdout().flush();
            let pid = unsafe { libc::fork() };
            if pid == 0 {
                let r = std::panic::catch_unwind(std::panic::AssertUnwindSafe(|| -> Result<serde_json::Value, String> {
                    crate::e3::copy_dir(&here, &dir).map_err(|e| e.to_string())?;
                    std::env::set_current_dir(&dir).map_err(|e| e.to_string())?;
                    let mut ends: BTreeMap<String, u64> = BTreeMap::new();
                    if twin == "stand-in" {
                        let started = krill::api::ca::Timestamp::now();
                        let mut n = 0;
                        loop {
                            match krill::server::scheduler::verif_step(&w.slow, started) {
                                krill::server::scheduler::VerifStepOutcome::Idle => break,
                                krill::server::scheduler::VerifStepOutcome::Processed { result, .. } => {
                                    *ends.entry(result.to_string()).or_default() += 1;
                                }
                                krill::server::scheduler::VerifStepOutcome::Fatal(f) => {
                                    return Ok(json!({"fatal": f}));
                                }
                            }
                            n += 1;
                            if n > 500 {
                                return Err("stand-in: more than 500 steps".into());
                            }
                        }
                    } else {
                        let (tx, rx) = std::sync::mpsc::channel::<()>();
                        let slow = w.slow.clone();
                        let fatal: std::sync::Arc<std::sync::Mutex<Option<String>>> = Default::default();
                        let h = std::thread::spawn(move || {
                            krill::server::scheduler::verif_run(slow, rx);
                        });
                        // real time: wait until nothing is due and nothing runs
                        let t0 = std::time::Instant::now();
                        let mut stable = 0;
                        loop {
                            clock::real_sleep_ms(50);
                            let due = w.next_due_in().map(|d| d <= 0).unwrap_or(false);
                            let running = !w.running_tasks().is_empty();
                            if !due && !running { stable += 1 } else { stable = 0 }
                            if stable >= 6 || h.is_finished() {
                                break;
                            }
                            if t0.elapsed().as_secs() > 60 {
                                break;
                            }
                        }
                        let stuck = !w.running_tasks().is_empty();
                        let still_due = w.next_due_in().map(|d| d <= 0).unwrap_or(false);
                        let _ = tx.send(());
                        if !stuck || h.is_finished() {
                            if let Err(p) = h.join() {
                                *fatal.lock().unwrap() = Some(crate::e1::panic_message(&p));
                            }
                        }
                        if let Some(f) = fatal.lock().unwrap().clone() {
                            return Ok(json!({"loop_died": f, "view": drained_view(&w)}));
                        }
                        if still_due && !stuck {
                            return Ok(json!({"not_drained": true, "view": drained_view(&w)}));
                        }
                    }
                    Ok(json!({"view": drained_view(&w), "ends": ends}))
                }));
                let v = match r {
                    Ok(Ok(v)) => v,
                    Ok(Err(e)) => json!({"machinery": e}),
                    Err(p) => json!({"panic": crate::e1::panic_message(&p)}),
                };
                let _ = std::fs::write(&vf, serde_json::to_vec(&v).unwrap());
                unsafe { libc::_exit(0) };
            }
            let mut st = 0;
            unsafe { libc::waitpid(pid, &mut st, 0) };
            let v: serde_json::Value = std::fs::read(&vf)
                .ok()
                .and_then(|b| serde_json::from_slice(&b).ok())
                .unwrap_or_else(|| json!({"machinery": format!("twin {twin}: no result (status {st:#x})")}));
            if twin == "stand-in" {
                results_a = v["ends"].clone();
            }
            views.push(v);
            let _ = std::fs::remove_dir_all(&dir);
            let _ = std::fs::remove_file(&vf);
        }
        Ok(json!({"due_before": due_before, "stand_in": views[0], "real_loop": views[1], "ends": results_a}))
    })();
    let v = match res {
        Ok(v) => v,
        Err(e) => json!({"machinery": e}),
    };
    let _ = std::fs::write(outf, serde_json::to_vec(&v).unwrap());
}

/// Runs the scenarios (parallel children). A difference between the two
/// drained views is reported against C09: the follow-ups of committed changes
/// are then not executed by the daemon's loop the way every other check
/// (which drives the stand-in) has validated them.
pub fn loop_conformance(out: &mut Outcome, thorough: bool) -> serde_json::Value {
    let scenarios = loop_scenarios(thorough);
    let root = e1run::scratch_root().with_extension("loop");
    let _g = e1run::ScratchGuard(root.clone());
    let _ = std::fs::remove_dir_all(&root);
    let mut pids = Vec::new();
    for (i, (name, ops)) in scenarios.iter().enumerate() {
        let dir = root.join(format!("s{i}"));
        std::fs::create_dir_all(&dir).unwrap();
        let outf = root.join(format!("s{i}.result"));
        use std::io::Write;
        let _ = std::io::stdout().flush();
        let pid = unsafe { libc::fork() };
        if pid == 0 {
            std::env::set_current_dir(&dir).unwrap();
            let _ = std::panic::catch_unwind(|| loop_scenario_child(ops, &outf));
            unsafe { libc::_exit(0) };
        }
        pids.push((pid, outf, *name, ops.clone()));
    }
    let mut ends_total: BTreeMap<String, u64> = BTreeMap::new();
    let mut compared = 0u64;
    let mut samples = Vec::new();
    for (pid, outf, name, ops) in pids {
        let mut st = 0;
        unsafe { libc::waitpid(pid, &mut st, 0) };
        let v: serde_json::Value = std::fs::read(&outf)
            .ok()
            .and_then(|b| serde_json::from_slice(&b).ok())
            .unwrap_or_else(|| json!({"machinery": format!("no result (status {st:#x})")}));
        if let Some(m) = v.get("machinery") {
            out.machinery_errors.push(format!("loop conformance '{name}': {m}"));
            continue;
        }
        let a = &v["stand_in"];
        let b = &v["real_loop"];
        if let Some(m) = a.get("machinery").or(b.get("machinery")).or(a.get("panic")).or(a.get("fatal")) {
            out.machinery_errors.push(format!("loop conformance '{name}': {m}"));
            continue;
        }
        if let Some(o) = v["ends"].as_object() {
            for (k, n) in o {
                *ends_total.entry(k.clone()).or_default() += n.as_u64().unwrap_or(0);
            }
        }
        compared += 1;
        samples.push(json!({"scenario": name, "ops": ops, "due_before": v["due_before"], "task_ends_stand_in": v["ends"]}));
        let mut problem: Option<(String, String)> = None;
        if let Some(p) = b.get("panic").or(b.get("loop_died")) {
            problem = Some(("died".into(), format!("the scheduler loop ended: {p}")));
        } else if b.get("not_drained").is_some() {
            problem = Some(("not-drained".into(), "due tasks are left although the scheduler loop has been idle".into()));
        } else if a["view"] != b["view"] {
            let mut d = Vec::new();
            crate::checks::c06::diff_path_pub(&a["view"], &b["view"], "", &mut d);
            problem = Some(("diverges".into(), format!("after the real scheduler loop went idle the state differs from the one the stand-in reaches from the same point (first: stand-in, second: real loop): {}", d.join("; "))));
        }
        if let Some((k, d)) = problem {
            out.findings.push(Finding {
                signature: format!("real-loop-{k}|{} @ {name}", crate::e1::normalize(&d)),
                text: format!("real scheduler loop, scenario '{name}' (due before: {}): {d}", v["due_before"]),
                replay: json!({"part": "loop", "scenario": name, "ops": ops, "kind": k, "detail": d}),
            });
        }
    }
    for k in ["done", "followup", "reschedule"] {
        if ends_total.get(k).copied().unwrap_or(0) == 0 {
            out.machinery_errors.push(format!("loop conformance: no task ended as '{k}' in any scenario (vacuous)"));
        }
    }
    json!({"scenarios_compared": compared, "task_ends": ends_total, "samples": samples})
}

pub fn run(tier: &Tier, args: &[String]) -> i32 {
    let mut out = Outcome::new("C09", tier, "model_checking");
    out.assumptions = vec![
        "virtual clock; `Tick` is the only way time moves".into(),
        "a crash while a task runs is modelled as claim-without-effect followed by a restart (tasks are idempotent re-syncs; crashes *inside* a task body are C08's subject)".into(),
        "plain Replace modes are only exercised while at most one pending entry of the name exists (their effect on duplicates is unspecified)".into(),
    ];
    let qdepth = crate::report::arg_value(args, "--qdepth")
        .and_then(|d| d.parse().ok())
        .unwrap_or(if tier.thorough { 10 } else { 5 });
    let t0 = std::time::Instant::now();
    let q = queue_bfs(qdepth, !tier.thorough);
    eprintln!(
        "[C09a] queue BFS depth {} states={} transitions={} {:.1}s",
        qdepth, q.states, q.transitions, t0.elapsed().as_secs_f64()
    );
    if let Some((h, e)) = &q.violation {
        out.findings.push(Finding {
            signature: format!("queue|{}", crate::e1::normalize(e)),
            text: format!("queue vs reference: {e}; ops={}", serde_json::to_string(h).unwrap()),
            replay: json!({"part": "queue", "ops": h, "detail": e}),
        });
    }
    let t1 = std::time::Instant::now();
    let tdepth = if tier.thorough { 10 } else { 5 };
    let (ts, tt, tsamples, tviol, startup_hist) = taskqueue_bfs(tdepth);
    eprintln!(
        "[C09b] taskqueue BFS depth {} states={} transitions={} startups-by-running={:?} {:.1}s",
        tdepth, ts, tt, startup_hist, t1.elapsed().as_secs_f64()
    );
    if let Some((h, e)) = &tviol {
        out.findings.push(Finding {
            signature: format!("taskqueue-restart|{}", crate::e1::normalize(e)),
            text: format!("task queue restart: {e}; ops={}", serde_json::to_string(h).unwrap()),
            replay: json!({"part": "taskqueue", "ops": h, "detail": e}),
        });
    }
    // (c) world
    let depth = crate::report::arg_value(args, "--depth")
        .and_then(|d| d.parse().ok())
        .unwrap_or(if tier.thorough { 8 } else { 4 });
    let cap = crate::report::arg_value(args, "--cap")
        .and_then(|d| d.parse().ok())
        .unwrap_or(if tier.thorough { 900 } else { 45 });
    let mut w_out = Outcome::new("C09", tier, "model_checking");
    e1run::run(
        Spec {
            property: "C09".into(),
            configs: vec![Config {
                name: "w2-restart".into(),
                build: Box::new(|| {
                    let f = c01::full_ca_res();
                    let mut w = World::build_w2(WorldCfg::default(), res(&f.0, &f.1, &f.2))
                        .map_err(|e| e.to_string())?;
                    // a started daemon: recurring tasks are queued
                    w.restart().map_err(|e| e.to_string())?;
                    w.pump()?;
                    Ok(w)
                }),
                model: C09Model {
                    inner: c01::C01Model {
                        intent: c01::Intent::default(),
                        full_alphabet: false,
                        two_parents: false,
                    },
                    running_before_restart: vec![],
                },
            }],
            depth,
            wall_cap_s: cap,
            procs: 16,
            min_states: 10,
        },
        &mut w_out,
    );
    out.findings.extend(w_out.findings);
    out.machinery_errors.extend(w_out.machinery_errors);
    let wc = w_out.coverage;
    let w_states = wc["states"].as_u64().unwrap_or(0);
    let w_trans = wc["transitions"].as_u64().unwrap_or(0);
    let (real_cases, real_samples) = real_startup_cases(&mut out, tier.thorough);
    let loop_cov = loop_conformance(&mut out, tier.thorough);
    let mut samples = q.samples.clone();
    samples.extend(tsamples);
    samples.extend(real_samples);
    if let Some(a) = wc["samples"].as_array() {
        samples.extend(a.iter().take(4).cloned());
    }
    out.coverage = json!({
        "states": q.states + ts + w_states,
        "transitions": q.transitions + tt + w_trans,
        "traces_validated_against_impl": q.transitions + tt + w_trans,
        "samples": samples,
        "exhaustive": wc["exhaustive"],
        "queue_bfs": {"depth": qdepth, "states": q.states, "transitions": q.transitions,
                      "modes": if tier.thorough { &MODE_NAMES[..] } else { &MODE_NAMES[..3] }},
        "taskqueue_bfs": {"depth": tdepth, "states": ts, "transitions": tt,
                          "startups_by_number_of_running_tasks": startup_hist},
        "world": wc,
        "real_startup_cases": real_cases,
        "real_loop_vs_stand_in": loop_cov,
        "explanation": "counters[6..9] of the world run = restarts exercised with 0,1,2,3+ tasks in the running state",
    });
    out.finish()
}
