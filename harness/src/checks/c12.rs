//! C12 — up-down and publication requests act only for the registered
//! identity key. Bounded-exhaustive enumeration of (signing key, claimed
//! sender, recipient, target CA, request kind) on forked copies of several
//! states, plus every single-bit corruption of valid messages, against the
//! real CaManager::rfc6492 and RepositoryManager::rfc8181 entry points.

use std::collections::BTreeMap;

use bytes::Bytes;
use krill::api::admin::{AddChildRequest, UpdateChildRequest};
use rpki::ca::idexchange::PublisherRequest;
use rpki::ca::provisioning::{self, IssuanceRequest, ProvisioningCms, RequestResourceLimit, RevocationRequest};
use rpki::ca::publication::{self, PublicationCms};
use rpki::repository::cert::Cert;
use rpki::repository::resources::ResourceSet;
use serde::{Deserialize, Serialize};
use serde_json::{json, Value};

use crate::cms::PoolSigner;
use crate::report::{Finding, Outcome, Tier};
use crate::world::{ca, pub_h, res, World, WorldCfg};

const BASE: &str = "rsync://localhost/repo/";

pub struct Ctx {
    pub signer: PoolSigner,
    /// identity keys: A (alice), B (bobby), A2 (alice's replacement), R (unregistered)
    pub id: BTreeMap<&'static str, usize>,
    /// CA keys used in CSRs
    pub ca_key: BTreeMap<&'static str, usize>,
    /// which identity key is registered for whom in this state
    pub registered: BTreeMap<&'static str, &'static str>,
    /// children that are suspended in this state: a properly signed request
    /// of theirs re-activates them (and their certificates) as a side effect
    pub suspended: Vec<&'static str>,
}

fn entitlement(child: &str) -> ResourceSet {
    match child {
        "alice" => res("AS65000", "10.0.0.0/16", ""),
        "bobby" => res("AS65001", "10.1.0.0/16", ""),
        _ => ResourceSet::default(),
    }
}

#[derive(Clone, Debug, Serialize, Deserialize, PartialEq)]
pub enum Req {
    /// RFC 6492 request
    Up { key: String, sender: String, recipient: String, target: String, kind: String },
    /// RFC 6492 request signed by `key` for `from`, with the sender name in
    /// the signed content replaced afterwards by the equally long `to`
    UpSubst { key: String, from: String, to: String, kind: String },
    /// RFC 8181 request posted to the URL of publisher `path`
    Pub { key: String, path: String, kind: String },
}

#[derive(Clone, Debug, Default, Serialize, Deserialize)]
struct Obs {
    accepted: bool,
    err: String,
    reply: String,
    problems: Vec<(String, String)>,
}

pub const STATES: [&str; 6] = ["fresh", "issued", "alice-id-replaced", "parent-id-rolled", "alice-suspended", "repo-reinitialised"];

pub fn build_state(name: &str) -> Result<(World, Ctx), String> {
    let w = World::build_ta_parent(WorldCfg::default()).map_err(|e| e.to_string())?;
    w.add_ca("other").map_err(|e| e.to_string())?;
    let signer = PoolSigner::new();
    let mut id = BTreeMap::new();
    for k in ["A", "B", "A2", "R"] {
        id.insert(k, signer.new_key());
    }
    let mut ca_key = BTreeMap::new();
    for k in ["alice", "bobby"] {
        ca_key.insert(k, signer.new_key());
    }
    let mut ctx = Ctx {
        signer,
        id,
        ca_key,
        registered: [("alice", "A"), ("bobby", "B")].into_iter().collect(),
        suspended: Vec::new(),
    };
    for (child, key) in [("alice", "A"), ("bobby", "B")] {
        let req = AddChildRequest {
            handle: ca(child).convert(),
            resources: entitlement(child),
            id_cert: ctx.signer.id_cert(ctx.id[key]),
        };
        w.krill
            .ca_manager()
            .ca_add_child(&ca("parent"), req, &w.actor, &w.krill)
            .map_err(|e| format!("add child {child}: {e}"))?;
        let preq = PublisherRequest::new(rpki::ca::publication::Base64::from_content(ctx.signer.id_cert(ctx.id[key]).to_captured().as_slice()), pub_h(child), None);
        w.krill.repo_manager().create_publisher(preq, &w.actor).map_err(|e| format!("add publisher {child}: {e}"))?;
    }
    w.pump()?;
    if name != "fresh" {
        for child in ["alice", "bobby"] {
            let r = Req::Up {
                key: ctx.registered[child].into(),
                sender: child.into(),
                recipient: "parent".into(),
                target: "parent".into(),
                kind: "issue".into(),
            };
            let bytes = message(&ctx, &r)?;
            send(&w, &r, bytes).map_err(|e| format!("initial issue for {child}: {e}"))?;
            let r = Req::Pub { key: ctx.registered[child].into(), path: child.into(), kind: "publish_own".into() };
            let bytes = message(&ctx, &r)?;
            send(&w, &r, bytes).map_err(|e| format!("initial publish for {child}: {e}"))?;
        }
        w.pump()?;
    }
    match name {
        "fresh" | "issued" => {}
        "alice-id-replaced" => {
            w.krill
                .ca_manager()
                .ca_child_update(
                    &ca("parent"),
                    ca("alice").convert(),
                    UpdateChildRequest::id_cert(ctx.signer.id_cert(ctx.id["A2"])),
                    &w.actor,
                    &w.krill,
                )
                .map_err(|e| e.to_string())?;
            w.krill.repo_manager().remove_publisher(pub_h("alice"), &w.actor, &w.krill).map_err(|e| e.to_string())?;
            let preq = PublisherRequest::new(rpki::ca::publication::Base64::from_content(ctx.signer.id_cert(ctx.id["A2"]).to_captured().as_slice()), pub_h("alice"), None);
            w.krill.repo_manager().create_publisher(preq, &w.actor).map_err(|e| e.to_string())?;
            ctx.registered.insert("alice", "A2");
            w.pump()?;
        }
        "parent-id-rolled" => {
            w.krill.ca_manager().ca_update_id(ca("parent"), &w.actor, &w.krill).map_err(|e| e.to_string())?;
            w.pump()?;
        }
        "alice-suspended" => {
            w.krill
                .ca_manager()
                .ca_child_update(&ca("parent"), ca("alice").convert(), UpdateChildRequest::suspend(), &w.actor, &w.krill)
                .map_err(|e| e.to_string())?;
            ctx.suspended.push("alice");
            w.pump()?;
        }
        // the publication server is emptied, cleared and initialised again
        // in the running instance (a new server identity key), and the
        // publishers register again
        "repo-reinitialised" => {
            let rm = w.krill.repo_manager();
            for p in rm.publishers().map_err(|e| e.to_string())? {
                rm.remove_publisher(p.clone(), &w.actor, &w.krill).map_err(|e| format!("remove publisher {p}: {e}"))?;
            }
            w.pump()?;
            rm.repository_clear().map_err(|e| format!("clear: {e}"))?;
            let tb = w.config.testbed().ok_or("no testbed config")?.clone();
            rm.init(tb.publication_server_uris(), &w.krill).map_err(|e| format!("init again: {e}"))?;
            for (child, key) in [("alice", "A"), ("bobby", "B")] {
                let preq = PublisherRequest::new(rpki::ca::publication::Base64::from_content(ctx.signer.id_cert(ctx.id[key]).to_captured().as_slice()), pub_h(child), None);
                rm.create_publisher(preq, &w.actor).map_err(|e| format!("add publisher {child} again: {e}"))?;
            }
            let mut w = w;
            for c in ["parent", "other"] {
                let o = w.apply(&crate::ops::Op::AddPublisher { ca: c.into() });
                if !o.ok {
                    return Err(format!("publisher for {c} again: {:?}", o.err));
                }
                // everything the CA has is published again right away
                w.krill.ca_manager().cas_repo_sync_single(&ca(c), 0, &w.slow).map_err(|e| format!("repository sync of {c}: {e}"))?;
            }
            w.pump()?;
            for child in ["alice", "bobby"] {
                let r = Req::Pub { key: ctx.registered[child].into(), path: child.into(), kind: "publish_own".into() };
                let bytes = message(&ctx, &r)?;
                send(&w, &r, bytes).map_err(|e| format!("publish again for {child}: {e}"))?;
            }
            w.pump()?;
            return Ok((w, ctx));
        }
        other => return Err(format!("unknown state {other}")),
    }
    Ok((w, ctx))
}

fn key_hash_of(ctx: &Ctx, child: &str) -> rpki::crypto::KeyIdentifier {
    ctx.signer.public_key(ctx.ca_key[child]).key_identifier()
}

/// The provisioning message for a request (before signing).
fn up_message(ctx: &Ctx, sender: &str, recipient: &str, kind: &str) -> Result<provisioning::Message, String> {
    let s = ca(sender).convert();
    let r = ca(recipient).convert();
    let own = if sender == "bobby" { "bobby" } else { "alice" };
    let other = if own == "alice" { "bobby" } else { "alice" };
    let class = rpki::ca::provisioning::ResourceClassName::from("0");
    Ok(match kind {
        "list" => provisioning::Message::list(s, r),
        "issue" | "issue_limit_other" => {
            let csr = ctx.signer.csr(ctx.ca_key[own], &format!("{BASE}{own}/0/"));
            let mut limit = RequestResourceLimit::new();
            if kind == "issue_limit_other" {
                limit.with_ipv4(entitlement(other).ipv4().clone().into());
            }
            provisioning::Message::issue(s, r, IssuanceRequest::new(class, limit, csr))
        }
        "revoke_own" => provisioning::Message::revoke(s, r, RevocationRequest::new(class, key_hash_of(ctx, own))),
        "revoke_other" => provisioning::Message::revoke(s, r, RevocationRequest::new(class, key_hash_of(ctx, other))),
        k => return Err(format!("unknown kind {k}")),
    })
}

fn pub_message(w: Option<&World>, path: &str, kind: &str) -> Result<publication::Message, String> {
    use rpki::ca::publication::{Base64, Publish, PublishDelta, Update, Withdraw};
    let own = if path == "bobby" { "bobby" } else { "alice" };
    let other = if own == "alice" { "bobby" } else { "alice" };
    let uri = |who: &str, f: &str| rpki::uri::Rsync::from_string(format!("{BASE}{who}/{f}")).unwrap();
    let content = |c: &str| Base64::from_content(c.as_bytes());
    Ok(match kind {
        "list" => publication::Message::list_query(),
        "publish_own" => {
            let mut d = PublishDelta::empty();
            d.add_publish(Publish::new(None, uri(own, "new.cer"), content("new object")));
            publication::Message::delta(d)
        }
        "publish_other" => {
            let mut d = PublishDelta::empty();
            d.add_publish(Publish::new(None, uri(other, "intruder.cer"), content("intruder")));
            publication::Message::delta(d)
        }
        // a URI that has the sender's base URI as a string prefix without
        // lying below it (handles that are prefixes of one another)
        "publish_lookalike" => {
            let mut d = PublishDelta::empty();
            d.add_publish(Publish::new(None, uri(&format!("{own}2"), "intruder.cer"), content("intruder")));
            publication::Message::delta(d)
        }
        "restore_own" => {
            // undoes "update_own"
            let mut d = PublishDelta::empty();
            d.add_update(Update::new(None, uri(own, "new.cer"), content("new object"), content("replaced").to_hash()));
            publication::Message::delta(d)
        }
        "update_other" | "withdraw_other" | "update_own" | "withdraw_own" => {
            // needs the current hash of the object x.cer the owner published
            let who = if kind == "update_own" || kind == "withdraw_own" { own } else { other };
            let target = uri(who, "new.cer");
            let hash = content("new object").to_hash();
            let _ = w;
            let mut d = PublishDelta::empty();
            if kind == "withdraw_other" || kind == "withdraw_own" {
                d.add_withdraw(Withdraw::new(None, target, hash));
            } else {
                d.add_update(Update::new(None, target, content("replaced"), hash));
            }
            publication::Message::delta(d)
        }
        k => return Err(format!("unknown kind {k}")),
    })
}

/// The signed bytes for a request.
pub fn message(ctx: &Ctx, r: &Req) -> Result<Bytes, String> {
    match r {
        Req::Up { key, sender, recipient, kind, .. } => {
            let m = up_message(ctx, sender, recipient, kind)?;
            Ok(ctx.signer.sign_6492(ctx.id[key.as_str()], m))
        }
        Req::UpSubst { key, from, to, kind } => {
            let m = up_message(ctx, from, "parent", kind)?;
            let bytes = ctx.signer.sign_6492(ctx.id[key.as_str()], m).to_vec();
            let needle = format!("sender=\"{from}\"");
            let repl = format!("sender=\"{to}\"");
            if needle.len() != repl.len() {
                return Err("substitution needs equally long names".into());
            }
            let Some(pos) = bytes.windows(needle.len()).position(|w| w == needle.as_bytes()) else {
                return Err("sender attribute not found in CMS".into());
            };
            let mut b = bytes;
            b[pos..pos + repl.len()].copy_from_slice(repl.as_bytes());
            Ok(Bytes::from(b))
        }
        Req::Pub { key, path, kind } => {
            let m = pub_message(None, path, kind)?;
            Ok(ctx.signer.sign_8181(ctx.id[key.as_str()], m))
        }
    }
}

/// Hands the bytes to the real entry point.
pub fn send(w: &World, r: &Req, bytes: Bytes) -> Result<Bytes, String> {
    match r {
        Req::Up { target, .. } => w
            .krill
            .ca_manager()
            .rfc6492(&ca(target), bytes, Some("kcheck".into()), &w.actor, &w.krill)
            .map_err(|e| e.to_string()),
        Req::UpSubst { .. } => w
            .krill
            .ca_manager()
            .rfc6492(&ca("parent"), bytes, Some("kcheck".into()), &w.actor, &w.krill)
            .map_err(|e| e.to_string()),
        Req::Pub { path, .. } => w.krill.repo_manager().rfc8181(pub_h(path), bytes, &w.krill).map_err(|e| e.to_string()),
    }
}

/// What the parent has issued and published (file name -> resources), and
/// what every publisher has in the repository (uri -> hash).
fn views(w: &World) -> Result<(BTreeMap<String, String>, BTreeMap<String, String>), String> {
    let mut certs = BTreeMap::new();
    let mut files = BTreeMap::new();
    let pubs = w.krill.repo_manager().publishers().map_err(|e| e.to_string())?;
    for p in pubs {
        let d = w.krill.repo_manager().get_publisher_details(p.clone()).map_err(|e| e.to_string())?;
        for f in d.current_files {
            let uri = f.uri.to_string();
            let bytes = f.base64.to_bytes();
            if p.as_str() == "parent" && uri.ends_with(".cer") {
                if let Ok(c) = Cert::decode(bytes.as_ref()) {
                    let rs = ResourceSet::new(
                        c.as_resources().to_blocks().unwrap_or_default(),
                        c.v4_resources().to_blocks().unwrap_or_default().into(),
                        c.v6_resources().to_blocks().unwrap_or_default().into(),
                    );
                    certs.insert(c.subject_key_identifier().to_string(), rs.to_string());
                }
            }
            if p.as_str() != "parent" && p.as_str() != "ta" && p.as_str() != "other" {
                files.insert(uri, hex::encode(&bytes[..bytes.len().min(24)]));
            }
        }
    }
    Ok((certs, files))
}

/// First path at which two JSON values differ.
fn first_diff(a: &Value, b: &Value, path: &str) -> String {
    match (a, b) {
        (Value::Object(x), Value::Object(y)) => {
            for (k, v) in x {
                match y.get(k) {
                    None => return format!("{path}/{k} removed"),
                    Some(w) if w != v => return first_diff(v, w, &format!("{path}/{k}")),
                    _ => {}
                }
            }
            for k in y.keys() {
                if !x.contains_key(k) {
                    return format!("{path}/{k} added");
                }
            }
            String::new()
        }
        (Value::Array(x), Value::Array(y)) => {
            for (i, (v, w)) in x.iter().zip(y.iter()).enumerate() {
                if v != w {
                    return first_diff(v, w, &format!("{path}[{i}]"));
                }
            }
            format!("{path} length {} -> {}", x.len(), y.len())
        }
        _ => format!("{path}: {} -> {}", a.to_string().chars().take(80).collect::<String>(), b.to_string().chars().take(80).collect::<String>()),
    }
}

fn parse_set(s: &str) -> ResourceSet {
    // ResourceSet Display: "asn: .., ipv4: .., ipv6: .."
    let mut a = "";
    let mut v4 = "";
    let mut v6 = "";
    for part in s.split(", ipv") {
        if let Some(x) = part.strip_prefix("asn: ") {
            a = x;
        } else if let Some(x) = part.strip_prefix("4: ") {
            v4 = x;
        } else if let Some(x) = part.strip_prefix("6: ") {
            v6 = x;
        }
    }
    ResourceSet::from_strs(a, v4, v6).unwrap_or_default()
}

/// Runs one request on the (already copied) world and checks the outcome.
fn evaluate(w: &mut World, ctx: &Ctx, r: &Req) -> Obs {
    let mut obs = Obs::default();
    let mut bad = |k: &str, d: String| obs.problems.push((k.to_string(), d));
    let fp_before = crate::fingerprint::canonical(w);
    let (certs_before, files_before) = match views(w) {
        Ok(v) => v,
        Err(e) => {
            bad("machinery", e);
            return obs;
        }
    };
    let bytes = match message(ctx, r) {
        Ok(b) => b,
        Err(e) => {
            bad("machinery", e);
            return obs;
        }
    };
    // expectation
    let (claimed, key, target_ok) = match r {
        Req::Up { sender, key, target, .. } => (sender.clone(), key.clone(), target == "parent"),
        Req::UpSubst { to, .. } => (to.clone(), "-".to_string(), true),
        Req::Pub { path, key, .. } => (path.clone(), key.clone(), true),
    };
    let may_accept = target_ok
        && !matches!(r, Req::UpSubst { .. })
        && ctx.registered.get(claimed.as_str()).map(|k| *k == key.as_str()).unwrap_or(false);
    let result = send(w, r, bytes);
    obs.accepted = result.is_ok();
    if let Err(e) = &result {
        obs.err = e.clone();
    }
    if obs.accepted && !may_accept {
        bad(
            "acted-on-wrong-key",
            format!("request was answered although key {key} is not the registered identity key of '{claimed}' in the addressed CA/server"),
        );
    }
    // Requests that are valid in every state must be answered (guards
    // against a vacuous run); for others a refusal on semantic grounds is
    // not against the property.
    let always_valid = match r {
        Req::Up { kind, .. } => kind == "list" || kind == "issue",
        Req::Pub { kind, .. } => kind == "list",
        _ => false,
    };
    if !obs.accepted && may_accept && always_valid {
        bad("refused-right-key", format!("request signed with the registered key of '{claimed}' was refused: {}", obs.err));
    }
    if !obs.accepted {
        let mut fp_after = crate::fingerprint::canonical(w);
        let mut fp_before = fp_before.clone();
        if may_accept {
            // properly signed but refused on semantic grounds: the failed
            // exchange is recorded in the status store (see C19)
            for v in [&mut fp_after, &mut fp_before] {
                if let Some(o) = v.as_object_mut() {
                    o.remove("status");
                }
            }
        }
        // a properly signed request of a suspended child re-activates it even
        // when the request itself is then refused on semantic grounds
        let reactivated = may_accept && ctx.suspended.contains(&claimed.as_str());
        if fp_after != fp_before && !reactivated {
            bad("refused-but-changed", format!("state changed by a refused request: {}", first_diff(&fp_before, &fp_after, "")));
        }
    }
    // the reply is signed by the server side's current identity key
    let own = claimed.as_str();
    let other = if own == "alice" { "bobby" } else { "alice" };
    let mut issued: Option<ResourceSet> = None;
    if let Ok(reply) = &result {
        match r {
            Req::Up { .. } | Req::UpSubst { .. } => match ProvisioningCms::decode(reply.as_ref()) {
                Err(e) => bad("reply", format!("reply does not decode: {e}")),
                Ok(cms) => {
                    let parent = w.krill.ca_manager().get_ca(&ca("parent"));
                    match parent {
                        Ok(p) => {
                            if let Err(e) = cms.validate(&p.id_cert().public_key) {
                                bad("reply-key", format!("reply does not validate under the CA's current identity key: {e}"));
                            }
                        }
                        Err(e) => bad("machinery", e.to_string()),
                    }
                    let m = cms.into_message();
                    if m.sender().as_str() != "parent" || m.recipient().as_str() != own {
                        bad("reply", format!("reply is from {} to {}", m.sender(), m.recipient()));
                    }
                    match m.into_payload() {
                        provisioning::Payload::ListResponse(l) => {
                            obs.reply = "list".into();
                            for c in l.classes() {
                                if !entitlement(own).contains(c.resource_set()) {
                                    bad("entitlement", format!("list response for {own} offers {}", c.resource_set()));
                                }
                            }
                        }
                        provisioning::Payload::IssueResponse(i) => {
                            obs.reply = "issue".into();
                            let issued_cert = i.into_issued();
                            let c = issued_cert.cert();
                            let rs = ResourceSet::new(
                                c.as_resources().to_blocks().unwrap_or_default(),
                                c.v4_resources().to_blocks().unwrap_or_default().into(),
                                c.v6_resources().to_blocks().unwrap_or_default().into(),
                            );
                            if !entitlement(own).contains(&rs) {
                                bad("entitlement", format!("certificate issued to {own} holds {rs}"));
                            }
                            issued = Some(rs);
                        }
                        provisioning::Payload::RevokeResponse(_) => obs.reply = "revoke".into(),
                        provisioning::Payload::ErrorResponse(e) => obs.reply = format!("error {}", e.status()),
                        _ => bad("reply", "reply is not a response".into()),
                    }
                }
            },
            Req::Pub { path, .. } => match PublicationCms::decode(reply.as_ref()) {
                Err(e) => bad("reply", format!("reply does not decode: {e}")),
                Ok(cms) => {
                    match w.krill.repo_manager().repository_response(&pub_h(path), &w.krill) {
                        Ok(rr) => {
                            let key = rr.validate().map(|c| c.public_key().clone());
                            if let Err(e) = key.map_err(|e| e.to_string()).and_then(|k| cms.validate(&k).map_err(|e| e.to_string())) {
                                bad("reply-key", format!("reply does not validate under the server's identity key: {e}"));
                            }
                        }
                        Err(e) => bad("machinery", e.to_string()),
                    }
                    match cms.into_message().as_reply() {
                        Ok(publication::Reply::List(l)) => {
                            obs.reply = "list".into();
                            for e in l.elements() {
                                if !e.uri().to_string().starts_with(&format!("{BASE}{own}/")) {
                                    bad("jail", format!("list reply for {own} contains {}", e.uri()));
                                }
                            }
                        }
                        Ok(publication::Reply::Success) => obs.reply = "success".into(),
                        Ok(publication::Reply::ErrorReply(_)) => obs.reply = "error".into(),
                        Err(e) => bad("reply", format!("reply is not a reply: {e}")),
                    }
                }
            },
        }
    }
    // effects, as a relying party / other clients would see them
    if let Err(e) = w.pump() {
        bad("machinery", format!("pump: {e}"));
    }
    let (certs_after, files_after) = match views(w) {
        Ok(v) => v,
        Err(e) => {
            bad("machinery", e);
            return obs;
        }
    };
    if !obs.accepted {
        let reactivated = may_accept && ctx.suspended.contains(&claimed.as_str());
        let without_own = |m: &BTreeMap<String, String>| -> BTreeMap<String, String> {
            let mut m = m.clone();
            if reactivated {
                m.remove(&key_hash_of(ctx, own).to_string());
            }
            m
        };
        if without_own(&certs_after) != without_own(&certs_before) || files_after != files_before {
            bad("refused-but-changed", "published content changed after a refused request".into());
        }
        return obs;
    }
    let kind = match r {
        Req::Up { kind, .. } | Req::UpSubst { kind, .. } | Req::Pub { kind, .. } => kind.as_str(),
    };
    match r {
        Req::Up { .. } | Req::UpSubst { .. } => {
            if files_after != files_before {
                bad("effect", "an up-down request changed a publisher's content".into());
            }
            let other_key = key_hash_of(ctx, other).to_string();
            if certs_before.get(&other_key) != certs_after.get(&other_key) {
                bad(
                    "foreign-effect",
                    format!(
                        "request by {own} changed the certificate of {other}: {:?} -> {:?}",
                        certs_before.get(&other_key), certs_after.get(&other_key)
                    ),
                );
            }
            let own_key = if own == "alice" || own == "bobby" { key_hash_of(ctx, own).to_string() } else { String::new() };
            for (k, v) in &certs_after {
                if *k != other_key && *k != own_key && certs_before.get(k) != Some(v) {
                    bad("foreign-effect", format!("certificate {k} changed"));
                }
            }
            let strip = |m: &BTreeMap<String, String>| -> BTreeMap<String, String> {
                let mut m = m.clone();
                if ctx.suspended.contains(&own) {
                    // re-activation re-publishes the suspended certificate
                    m.remove(&own_key);
                }
                m
            };
            match (kind, obs.reply.as_str()) {
                ("list", "list") => {
                    if strip(&certs_after) != strip(&certs_before) {
                        bad("effect", "a list request changed certificates".into());
                    }
                }
                ("issue", "issue") | ("issue_limit_other", "issue") => match certs_after.get(&own_key) {
                    None => bad("effect", format!("issued certificate for {own} is not published")),
                    Some(rs) => {
                        let set = parse_set(rs);
                        if !entitlement(own).contains(&set) {
                            bad("entitlement", format!("published certificate of {own} holds {rs}"));
                        }
                        if kind == "issue" && issued.as_ref().map(|i| i.to_string()) != Some(rs.clone()) {
                            bad("effect", format!("published certificate ({rs}) differs from the response ({:?})", issued.map(|i| i.to_string())));
                        }
                    }
                },
                ("revoke_own", "revoke") => {
                    if certs_after.contains_key(&own_key) {
                        bad("effect", format!("certificate of {own} still published after its revocation was confirmed"));
                    }
                }
                (_, rep) if rep.starts_with("error") => {
                    if strip(&certs_after) != strip(&certs_before) {
                        bad("effect", format!("an error response ({rep}) came with a change of certificates"));
                    }
                }
                ("revoke_other", "revoke") => {}
                (k, rep) => bad("reply", format!("request {k} answered with {rep}")),
            }
        }
        Req::Pub { .. } => {
            if certs_after != certs_before {
                bad("effect", "a publication request changed issued certificates".into());
            }
            let foreign = |m: &BTreeMap<String, String>| -> BTreeMap<String, String> {
                m.iter().filter(|(u, _)| !u.starts_with(&format!("{BASE}{own}/"))).map(|(a, b)| (a.clone(), b.clone())).collect()
            };
            if foreign(&files_before) != foreign(&files_after) {
                bad("foreign-effect", format!("publication request by {own} changed objects outside its base URI"));
            }
            match (kind, obs.reply.as_str()) {
                ("list", "list") => {
                    if files_after != files_before {
                        bad("effect", "a list query changed content".into());
                    }
                }
                ("publish_own", "success") | ("update_own", "success") => {}
                ("publish_own", "error") | ("update_own", "error") => {
                    if files_after != files_before {
                        bad("effect", "error reply came with a change".into());
                    }
                }
                ("publish_other", "error") | ("update_other", "error") | ("withdraw_other", "error") | ("publish_lookalike", "error") => {
                    if files_after != files_before {
                        bad("effect", "error reply came with a change".into());
                    }
                }
                (k, rep) => bad("jail", format!("request {k} answered with {rep}")),
            }
        }
    }
    obs
}

pub fn requests(thorough: bool) -> Vec<Req> {
    let mut v = Vec::new();
    let keys = ["A", "B", "A2", "R"];
    let senders = ["alice", "bobby", "carol"];
    let recipients: &[&str] = if thorough { &["parent", "other", "ta", "nobody"] } else { &["parent", "other"] };
    let targets = ["parent", "other"];
    let kinds = ["list", "issue", "issue_limit_other", "revoke_own", "revoke_other"];
    for key in keys {
        for sender in senders {
            for recipient in recipients {
                for target in targets {
                    for kind in kinds {
                        v.push(Req::Up {
                            key: key.into(),
                            sender: sender.into(),
                            recipient: recipient.to_string(),
                            target: target.into(),
                            kind: kind.into(),
                        });
                    }
                }
            }
        }
    }
    for (key, from, to) in [("A", "alice", "bobby"), ("B", "bobby", "alice"), ("A2", "alice", "bobby"), ("R", "alice", "bobby")] {
        for kind in ["list", "issue", "revoke_own", "revoke_other"] {
            v.push(Req::UpSubst { key: key.into(), from: from.into(), to: to.into(), kind: kind.into() });
        }
    }
    for key in keys {
        for path in senders {
            for kind in ["list", "publish_own", "publish_other", "publish_lookalike", "update_own", "update_other", "withdraw_other"] {
                v.push(Req::Pub { key: key.into(), path: path.into(), kind: kind.into() });
            }
        }
    }
    v
}

/// Cheap change detector: names and sizes of everything krill stores, except
/// the status store (which legitimately records failed exchanges).
fn disk_listing() -> Vec<(String, u64)> {
    fn walk(p: &std::path::Path, out: &mut Vec<(String, u64)>) {
        let Ok(rd) = std::fs::read_dir(p) else { return };
        for e in rd.flatten() {
            let path = e.path();
            let name = path.to_string_lossy().to_string();
            if name.contains("/status") || name.contains("/.tmp") || name.contains("/.locks") {
                continue;
            }
            match e.file_type() {
                Ok(t) if t.is_dir() => walk(&path, out),
                Ok(_) => out.push((name, e.metadata().map(|m| m.len()).unwrap_or(0))),
                _ => {}
            }
        }
    }
    let mut v = Vec::new();
    walk(std::path::Path::new("data"), &mut v);
    walk(std::path::Path::new("repo"), &mut v);
    v.sort();
    v
}

/// The messages whose every single-bit corruption is sent.
fn flip_subjects(thorough: bool) -> Vec<(&'static str, Req)> {
    let up = |key: &str, who: &str, kind: &str| Req::Up { key: key.into(), sender: who.into(), recipient: "parent".into(), target: "parent".into(), kind: kind.into() };
    let mut v = vec![
        ("issued", up("A", "alice", "list")),
        ("issued", up("A", "alice", "issue")),
        ("issued", up("A", "alice", "revoke_own")),
        ("issued", Req::Pub { key: "A".into(), path: "alice".into(), kind: "list".into() }),
        ("issued", Req::Pub { key: "A".into(), path: "alice".into(), kind: "update_own".into() }),
        ("alice-suspended", up("A", "alice", "list")),
    ];
    if thorough {
        for state in ["alice-id-replaced", "parent-id-rolled"] {
            v.push((state, up("B", "bobby", "list")));
            v.push((state, up("B", "bobby", "issue")));
            v.push((state, up("B", "bobby", "revoke_own")));
            v.push((state, Req::Pub { key: "B".into(), path: "bobby".into(), kind: "list".into() }));
            v.push((state, Req::Pub { key: "B".into(), path: "bobby".into(), kind: "update_own".into() }));
        }
        v.push(("alice-id-replaced", up("A2", "alice", "issue")));
    }
    v
}

fn same_content(r: &Req, original: &[u8], flipped: &[u8]) -> bool {
    match r {
        Req::Pub { .. } => match (PublicationCms::decode(original), PublicationCms::decode(flipped)) {
            (Ok(a), Ok(b)) => a.into_message().to_xml_bytes() == b.into_message().to_xml_bytes(),
            _ => false,
        },
        _ => match (ProvisioningCms::decode(original), ProvisioningCms::decode(flipped)) {
            (Ok(a), Ok(b)) => a.into_message().to_xml_bytes() == b.into_message().to_xml_bytes(),
            _ => false,
        },
    }
}

pub fn run(tier: &Tier, args: &[String]) -> i32 {
    let mut out = Outcome::new("C12", tier, "model_checking");
    out.assumptions = vec![
        "identity keys: A (alice), B (bobby), A2 (alice's replacement), R (never registered); claimed senders alice, bobby, carol (unknown); addressed CAs parent and other (a CA without children); recipients as listed".into(),
        "a wrong recipient handle inside an otherwise valid message is not a refusal condition of the property; the oracle only demands: answered => signed by the key registered for the claimed sender in the addressed CA".into(),
        "status records of the last exchange are not part of the compared state for bit flips (C19 requires failures to be recorded)".into(),
        "CMS signing time is 'now' on the frozen clock: message expiry is not varied".into(),
    ];
    if let Some(f) = crate::report::arg_value(args, "--replay") {
        return replay(&f);
    }
    let reqs = requests(tier.thorough);
    let root = crate::e1run::scratch_root();
    let _guard = crate::e1run::ScratchGuard(root.clone());
    let _ = std::fs::remove_dir_all(&root);
    std::fs::create_dir_all(&root).unwrap();
    let procs = 16usize;
    let mut evaluations = 0u64;
    let mut outcomes: BTreeMap<String, u64> = BTreeMap::new();
    // --- part 1: the matrix, each case on a forked copy of each state
    for (si, sname) in STATES.iter().enumerate() {
        let results = workers(&root, &format!("m{si}"), procs, &mut out, |k| {
            let mut results: Vec<Value> = Vec::new();
            let (mut w, ctx) = build_state(sname).expect("state build");
            for (i, req) in reqs.iter().enumerate() {
                if i % procs != k {
                    continue;
                }
                let (obs, code, dir) = crate::e3::fork_in_copy("c12", || evaluate(&mut w, &ctx, req));
                let _ = std::fs::remove_dir_all(&dir);
                match obs {
                    Some(o) => results.push(json!({"i": i, "obs": o})),
                    None => results.push(json!({"i": i, "died": code})),
                }
            }
            results
        });
        for r in results {
            evaluations += 1;
            let i = r["i"].as_u64().unwrap_or(0) as usize;
            let req = &reqs[i];
            if let Some(code) = r.get("died") {
                out.findings.push(Finding {
                    signature: format!("panic|request processing died (exit {code}) @ state={sname} req={}", serde_json::to_string(req).unwrap()),
                    text: format!("[state {sname}] request processing panicked or exited (code {code}); request={}", serde_json::to_string(req).unwrap()),
                    replay: json!({"state": sname, "request": req}),
                });
                continue;
            }
            let obs: Obs = serde_json::from_value(r["obs"].clone()).unwrap_or_default();
            *outcomes
                .entry(format!("{}: {}", if obs.accepted { "answered" } else { "refused" }, if obs.accepted { obs.reply.clone() } else { "error".into() }))
                .or_default() += 1;
            for (kind, detail) in obs.problems {
                if kind == "machinery" {
                    out.machinery_errors.push(format!("state {sname} req {i}: {detail}"));
                    continue;
                }
                out.findings.push(Finding {
                    signature: format!("{kind}|{} @ state={sname} req={}", crate::e1::normalize(&detail), serde_json::to_string(req).unwrap()),
                    text: format!("[state {sname}] {kind}: {detail}; request={}", serde_json::to_string(req).unwrap()),
                    replay: json!({"state": sname, "request": req, "kind": kind, "detail": detail}),
                });
            }
        }
    }
    // --- part 2: every single-bit corruption of valid messages
    let subjects = flip_subjects(tier.thorough);
    let mut flips = 0u64;
    let mut flips_accepted = 0u64;
    let mut flip_sizes = Vec::new();
    let stride: usize = crate::report::arg_value(args, "--flip-stride").and_then(|s| s.parse().ok()).unwrap_or(1);
    for (mi, (fstate, subject)) in subjects.iter().enumerate() {
        let results = workers(&root, &format!("f{mi}"), procs, &mut out, |k| {
            let mut results: Vec<Value> = Vec::new();
            let (w, ctx) = build_state(fstate).expect("state build");
            let original = message(&ctx, subject).expect("message").to_vec();
            let mut baseline = disk_listing();
            let fp_start = crate::fingerprint::canonical(&w);
            let mut any_accepted = false;
            let nbits = original.len() * 8;
            let mut n = 0u64;
            let mut acc = 0u64;
            let mut bit = k * stride;
            while bit < nbits {
                let mut m = original.clone();
                m[bit / 8] ^= 0x80 >> (bit % 8);
                n += 1;
                let r = std::panic::catch_unwind(std::panic::AssertUnwindSafe(|| send(&w, subject, Bytes::from(m.clone()))));
                match r {
                    Err(p) => results.push(json!({"bit": bit, "kind": "panic", "detail": crate::e1::panic_message(&p)})),
                    Ok(Ok(_)) => {
                        acc += 1;
                        if !same_content(subject, &original, &m) {
                            results.push(json!({"bit": bit, "kind": "corrupted-accepted", "detail": "a corrupted message that does not decode to the identical content was answered"}));
                        }
                        any_accepted = true;
                        baseline = disk_listing();
                    }
                    Ok(Err(_)) => {
                        let now = disk_listing();
                        if now != baseline {
                            results.push(json!({"bit": bit, "kind": "refused-but-changed", "detail": "stored state changed by a refused corrupted message"}));
                            baseline = now;
                        }
                    }
                }
                bit += procs * stride;
            }
            if !any_accepted && crate::fingerprint::canonical(&w) != fp_start {
                results.push(json!({"bit": -1, "kind": "refused-but-changed", "detail": "state differs after a run of refused corrupted messages"}));
            }
            results.push(json!({"count": n, "accepted": acc, "len": original.len()}));
            results
        });
        for r in results {
            if let Some(n) = r.get("count") {
                flips += n.as_u64().unwrap_or(0);
                flips_accepted += r["accepted"].as_u64().unwrap_or(0);
                let l = r["len"].as_u64().unwrap_or(0);
                if !flip_sizes.contains(&json!({"state": fstate, "message": subject, "bytes": l})) {
                    flip_sizes.push(json!({"state": fstate, "message": subject, "bytes": l}));
                }
                continue;
            }
            let kind = r["kind"].as_str().unwrap_or("").to_string();
            let detail = r["detail"].as_str().unwrap_or("").to_string();
            let bit = r["bit"].as_i64().unwrap_or(-1);
            out.findings.push(Finding {
                signature: format!("{kind}|{} @ flip message={} bit={bit}", crate::e1::normalize(&detail), serde_json::to_string(subject).unwrap()),
                text: format!("[bit flip] {kind}: {detail}; message={} bit={bit}", serde_json::to_string(subject).unwrap()),
                replay: json!({"state": fstate, "request": subject, "flip_bit": bit, "kind": kind, "detail": detail}),
            });
        }
    }
    evaluations += flips;
    out.coverage = json!({
        "evaluations": evaluations,
        "distinct_nontrivial": evaluations,
        "states": STATES.len(),
        "transitions": evaluations,
        "traces_validated_against_impl": evaluations,
        "rule": format!("matrix: every (signing key x claimed sender x recipient x addressed CA x request kind) for RFC 6492, every same-length sender substitution inside a signed message, every (signing key x publisher URL x request kind) for RFC 8181 = {} requests, each executed on a forked copy of each of the states {:?}; plus every single-bit corruption (stride {stride}) of {} valid messages (states as listed in flip_messages), sent in sequence to the real entry points", reqs.len(), STATES, subjects.len()),
        "requests_per_state": reqs.len(),
        "bit_flips": flips,
        "bit_flips_answered_with_identical_content": flips_accepted,
        "flip_messages": flip_sizes,
        "outcomes": outcomes,
        "exhaustive": stride == 1,
        "samples": reqs.iter().step_by(97).take(6).collect::<Vec<_>>(),
    });
    out.finish()
}

/// Runs `procs` forked workers; each returns a JSON list.
fn workers(
    root: &std::path::Path,
    tag: &str,
    procs: usize,
    out: &mut Outcome,
    f: impl Fn(usize) -> Vec<Value>,
) -> Vec<Value> {
    use std::io::Write;
    let mut pids = Vec::new();
    for k in 0..procs {
        let dir = root.join(format!("{tag}k{k}"));
        std::fs::create_dir_all(&dir).unwrap();
        let outf = root.join(format!("{tag}k{k}.json"));
        let _ = std::io::stdout().flush();
        let pid = unsafe { libc::fork() };
        if pid == 0 {
            std::env::set_current_dir(&dir).unwrap();
            let r = std::panic::catch_unwind(std::panic::AssertUnwindSafe(|| f(k)));
            let results = match r {
                Ok(v) => v,
                Err(p) => vec![json!({"machinery": format!("worker panicked: {}", crate::e1::panic_message(&p))})],
            };
            let _ = std::fs::write(&outf, serde_json::to_vec(&results).unwrap());
            unsafe { libc::_exit(0) };
        }
        pids.push((pid, outf, dir));
    }
    let mut all = Vec::new();
    for (pid, outf, dir) in pids {
        let mut st = 0;
        unsafe { libc::waitpid(pid, &mut st, 0) };
        let _ = std::fs::remove_dir_all(&dir);
        let Ok(bytes) = std::fs::read(&outf) else {
            out.machinery_errors.push(format!("{tag}: worker produced no result"));
            continue;
        };
        let results: Vec<Value> = serde_json::from_slice(&bytes).unwrap_or_default();
        for r in results {
            if let Some(m) = r.get("machinery") {
                out.machinery_errors.push(format!("{tag}: {m}"));
            } else {
                all.push(r);
            }
        }
    }
    all
}

fn replay(file: &str) -> i32 {
    let v: Value = match std::fs::read(file).ok().and_then(|b| serde_json::from_slice(&b).ok()) {
        Some(v) => v,
        None => {
            eprintln!("cannot read {file}");
            return 2;
        }
    };
    let state = v["state"].as_str().unwrap_or("issued").to_string();
    let Ok(req) = serde_json::from_value::<Req>(v["request"].clone()) else {
        eprintln!("no request in {file}");
        return 2;
    };
    let root = crate::e1run::scratch_root();
    let _guard = crate::e1run::ScratchGuard(root.clone());
    let _ = std::fs::remove_dir_all(&root);
    std::fs::create_dir_all(&root).unwrap();
    std::env::set_current_dir(&root).unwrap();
    let (mut w, ctx) = match build_state(&state) {
        Ok(x) => x,
        Err(e) => {
            eprintln!("state build: {e}");
            return 2;
        }
    };
    let mut problems = Vec::new();
    if let Some(bit) = v.get("flip_bit").and_then(|b| b.as_i64()).filter(|b| *b >= 0) {
        let original = message(&ctx, &req).unwrap().to_vec();
        let mut m = original.clone();
        m[bit as usize / 8] ^= 0x80 >> (bit as usize % 8);
        let before = disk_listing();
        let r = send(&w, &req, Bytes::from(m.clone()));
        println!("flip bit {bit}: {:?}", r.as_ref().map(|_| "answered").map_err(|e| e.clone()));
        match r {
            Ok(_) if !same_content(&req, &original, &m) => problems.push(("corrupted-accepted".to_string(), "answered".to_string())),
            Err(_) if disk_listing() != before => problems.push(("refused-but-changed".to_string(), "changed".to_string())),
            _ => {}
        }
    } else {
        let obs = evaluate(&mut w, &ctx, &req);
        println!("accepted={} reply={} err={}", obs.accepted, obs.reply, obs.err);
        problems = obs.problems;
    }
    for (k, d) in &problems {
        println!("  -> {k}: {d}");
    }
    if problems.is_empty() {
        println!("OK property=C12 replay holds");
        0
    } else {
        println!("VIOLATION property=C12 replay={file}");
        1
    }
}
