//! C13 — every API route enforces the permission its operation requires.
//! Exhaustive enumeration of (route x role x addressed CA x credential kind)
//! against the daemon's real HTTP service; reference: the route table and the
//! role semantics (specific CA grant, else blanket grant).

use std::collections::{BTreeMap, BTreeSet, HashMap};
use std::sync::Arc;

use krill::daemon::http::auth::RoleMap;
use serde_json::{json, Value};

use crate::daemon::{Call, Daemon};
use crate::report::{Finding, Outcome, Tier};
use crate::routes::{fill, required, Route, ALL_PERMISSIONS, ROUTES};
use crate::world::{res, World, WorldCfg};

#[derive(Clone, Debug)]
struct RoleDef {
    name: String,
    perms: BTreeSet<&'static str>,
    cas: Option<Vec<&'static str>>,
    /// a role with a blanket grant AND differing per-CA grants (built with
    /// `Role::complex`; the configuration file cannot express it, the role
    /// type can): `perms` is then the grant for non-CA requests, this the
    /// blanket grant and the per-CA grants
    complex: Option<(BTreeSet<&'static str>, BTreeMap<&'static str, BTreeSet<&'static str>>)>,
}

impl RoleDef {
    fn is_allowed(&self, perm: &str, resource: Option<&str>) -> bool {
        if let Some((any, per_ca)) = &self.complex {
            return match resource {
                // a per-CA grant takes precedence over the blanket grant
                Some(ca) => match per_ca.get(ca) {
                    Some(set) => set.contains(perm),
                    None => any.contains(perm),
                },
                None => self.perms.contains(perm),
            };
        }
        match (resource, &self.cas) {
            (Some(ca), Some(list)) => list.contains(&ca) && self.perms.contains(perm),
            _ => self.perms.contains(perm),
        }
    }
}

fn permission_set(names: &BTreeSet<&'static str>) -> krill::daemon::http::auth::PermissionSet {
    use std::str::FromStr;
    let mut set = krill::daemon::http::auth::PermissionSet::NONE;
    for n in names {
        set = set.add(krill::daemon::http::auth::Permission::from_str(n).expect("permission name"));
    }
    set
}

fn roles(thorough: bool) -> Vec<RoleDef> {
    let all: BTreeSet<&'static str> = ALL_PERMISSIONS.iter().copied().collect();
    let mut v = vec![
        RoleDef { name: "full".into(), perms: all.clone(), cas: None, complex: None },
        RoleDef { name: "none".into(), perms: BTreeSet::new(), cas: None, complex: None },
        RoleDef { name: "login".into(), perms: ["login"].into_iter().collect(), cas: None, complex: None },
        RoleDef { name: "full-at-ca".into(), perms: all.clone(), cas: Some(vec!["ca"]), complex: None },
        RoleDef { name: "full-at-other".into(), perms: all.clone(), cas: Some(vec!["other"]), complex: None },
        RoleDef { name: "full-at-nothing".into(), perms: all.clone(), cas: Some(vec![]), complex: None },
    ];
    for p in ALL_PERMISSIONS {
        let mut but = all.clone();
        but.remove(p);
        v.push(RoleDef { name: format!("all-but-{p}"), perms: but.clone(), cas: None, complex: None });
        v.push(RoleDef { name: format!("only-{p}"), perms: [*p].into_iter().collect(), cas: None, complex: None });
        v.push(RoleDef { name: format!("login-{p}"), perms: ["login", *p].into_iter().collect(), cas: None, complex: None });
        v.push(RoleDef { name: format!("login-caread-{p}"), perms: ["login", "ca-read", *p].into_iter().collect(), cas: None, complex: None });
        v.push(RoleDef { name: format!("login-pubadmin-{p}"), perms: ["login", "pub-admin", *p].into_iter().collect(), cas: None, complex: None });
        v.push(RoleDef { name: format!("login-caread-{p}-at-ca"), perms: ["login", "ca-read", *p].into_iter().collect(), cas: Some(vec!["ca"]), complex: None });
        // blanket grant with a differing per-CA grant (narrower, wider, empty)
        let base: BTreeSet<&'static str> = ["login", "ca-read"].into_iter().collect();
        let mut base_p = base.clone();
        base_p.insert(*p);
        v.push(RoleDef { name: format!("complex-all-but-{p}-at-ca"), perms: all.clone(), cas: None, complex: Some((all.clone(), [("ca", but.clone())].into_iter().collect())) });
        v.push(RoleDef { name: format!("complex-{p}-only-at-ca"), perms: base.clone(), cas: None, complex: Some((base.clone(), [("ca", base_p.clone())].into_iter().collect())) });
        v.push(RoleDef { name: format!("complex-{p}-except-at-other"), perms: base_p.clone(), cas: None, complex: Some((base_p.clone(), [("other", base.clone())].into_iter().collect())) });
        if thorough {
            v.push(RoleDef { name: format!("complex-{p}-nothing-at-ca"), perms: base_p.clone(), cas: None, complex: Some((base_p.clone(), [("ca", BTreeSet::new())].into_iter().collect())) });
            v.push(RoleDef { name: format!("login-caread-{p}-at-other"), perms: ["login", "ca-read", *p].into_iter().collect(), cas: Some(vec!["other"]), complex: None });
            v.push(RoleDef { name: format!("all-but-{p}-at-ca"), perms: but, cas: Some(vec!["ca"]), complex: None });
            v.push(RoleDef { name: format!("login-{p}-at-both"), perms: ["login", *p].into_iter().collect(), cas: Some(vec!["ca", "other"]), complex: None });
            v.push(RoleDef { name: format!("login-{p}-at-ca-and-unknown"), perms: ["login", *p].into_iter().collect(), cas: Some(vec!["nobody", "ca"]), complex: None });
        }
    }
    if thorough {
        // every pair of permissions on top of login, blanket and scoped
        for (i, p) in ALL_PERMISSIONS.iter().enumerate() {
            for q in &ALL_PERMISSIONS[i + 1..] {
                if *p == "login" || *q == "login" {
                    continue;
                }
                let perms: BTreeSet<&'static str> = ["login", *p, *q].into_iter().collect();
                v.push(RoleDef { name: format!("login-{p}-{q}"), perms: perms.clone(), cas: None, complex: None });
                v.push(RoleDef { name: format!("login-{p}-{q}-at-other"), perms, cas: Some(vec!["other"]), complex: None });
            }
        }
    }
    v
}

fn role_map(defs: &[RoleDef]) -> Arc<RoleMap> {
    let mut m = serde_json::Map::new();
    for d in defs {
        if d.complex.is_some() {
            continue;
        }
        let mut o = json!({"permissions": d.perms.iter().collect::<Vec<_>>()});
        if let Some(c) = &d.cas {
            o["cas"] = json!(c);
        }
        m.insert(d.name.clone(), o);
    }
    let mut map = serde_json::from_value::<RoleMap>(Value::Object(m)).expect("role map");
    for d in defs {
        if let Some((any, per_ca)) = &d.complex {
            let resources = per_ca
                .iter()
                .map(|(ca, set)| (crate::world::ca(ca).convert(), permission_set(set)))
                .collect();
            map.add(d.name.clone(), krill::daemon::http::auth::Role::complex(permission_set(&d.perms), permission_set(any), resources));
        }
    }
    Arc::new(map)
}

fn config(defs: &[RoleDef], testbed: bool) -> krill::config::Config {
    let mut c = crate::world::make_config(&WorldCfg::default());
    c.auth_roles = role_map(defs);
    let mut users = HashMap::new();
    for d in defs {
        users.insert(format!("u-{}", d.name), d.name.clone());
    }
    c.unix_users = users;
    if !testbed {
        c.testbed = None;
    }
    c
}

/// names and sizes of everything stored (status included: a denied request
/// must not leave anything)
fn disk_listing() -> Vec<(String, u64)> {
    fn walk(p: &std::path::Path, out: &mut Vec<(String, u64)>) {
        let Ok(rd) = std::fs::read_dir(p) else { return };
        for e in rd.flatten() {
            let path = e.path();
            let name = path.to_string_lossy().to_string();
            if name.contains("/.tmp") || name.contains("/.locks") {
                continue;
            }
            match e.file_type() {
                Ok(t) if t.is_dir() => walk(&path, out),
                Ok(_) => out.push((name, e.metadata().map(|m| m.len()).unwrap_or(0))),
                _ => {}
            }
        }
    }
    let mut v = Vec::new();
    walk(std::path::Path::new("data"), &mut v);
    walk(std::path::Path::new("repo"), &mut v);
    v.sort();
    v
}

fn copy_dir(src: &std::path::Path, dst: &std::path::Path) -> std::io::Result<()> {
    std::fs::create_dir_all(dst)?;
    for entry in std::fs::read_dir(src)? {
        let entry = entry?;
        let to = dst.join(entry.file_name());
        if entry.file_type()?.is_dir() {
            copy_dir(&entry.path(), &to)?;
        } else {
            std::fs::copy(entry.path(), &to)?;
        }
    }
    Ok(())
}

fn build_fixture() -> Result<BTreeMap<String, Value>, String> {
    // the same fixture as C16's API part, reusing its valid bodies
    let b = crate::checks::c16::build_api_fixture_pub()?;
    // ... plus recorded issues for two CAs that scoped callers may not read
    // (the issues listing of a healthy instance is empty for everybody)
    let mut w = crate::world::World::reopen(WorldCfg::default()).map_err(|e| e.to_string())?;
    // "other" needs something to publish before its publisher can be missed
    w.add_child_link("parent", "other", res("AS65009", "10.9.0.0/16", "")).map_err(|e| format!("fixture: parent for other: {e}"))?;
    w.pump()?;
    w.settle()?;
    for x in ISSUE_CAS {
        let o = w.apply(&crate::ops::Op::RemovePublisher { publisher: x.to_string() });
        if !o.ok {
            return Err(format!("fixture: remove publisher {x}: {:?}", o.err));
        }
        if w.krill.ca_manager().cas_repo_sync_single(&crate::world::ca(x), 0, &w.slow).is_ok() {
            return Err(format!("fixture: repository sync of {x} succeeded without a publisher"));
        }
    }
    let _ = w.pump();
    Ok(b)
}

/// CAs of the fixture with a recorded (repository) issue.
const ISSUE_CAS: [&str; 2] = ["other", "parent"];

#[derive(Clone, Debug, serde::Serialize, serde::Deserialize)]
struct Case {
    method: String,
    path: String,
    template: String,
    caller: String,
    target_ca: String,
    expect_allowed: bool,
    testbed: bool,
}

fn expected(route: &Route, role: Option<&RoleDef>, target: &str, admin: bool) -> bool {
    if admin {
        return true;
    }
    let req = required(route);
    if req.is_empty() {
        return true;
    }
    let Some(role) = role else { return false };
    req.iter().all(|(p, scoped)| role.is_allowed(p, if *scoped { Some(target) } else { None }))
}

pub fn run(tier: &Tier, _args: &[String]) -> i32 {
    let mut out = Outcome::new("C13", tier, "model_checking");
    out.assumptions = vec![
        "roles are the forms the configuration can express - a permission set, optionally restricted to a list of CAs (then the grant holds for the listed CAs only and for non-CA requests) - and roles with a blanket grant plus a differing per-CA grant (narrower, wider, empty), which only the role type can express (Role::complex, put into the role map directly); enumerated: full, none, login, for every permission P: all-but-P, only-P, login+P, login+ca-read+P, login+pub-admin+P, each also scoped to a CA; thorough adds scoping to the other CA, to both CAs and to a list with an unknown CA, and every pair of permissions on top of login (blanket and scoped to the other CA)".into(),
        "callers: no credentials, a wrong bearer token and three near misses of the admin token (prefix, extension, other case), the admin token, an unmapped system user, and a system user mapped to each role (the Unix-socket path: the daemon's own provider chain reads the peer user from the request extensions, as the socket listener sets it)".into(),
        "served = any status other than 401/403; the reference for the required permissions is the route table in harness/src/routes.rs, transcribed from src/daemon/http/dispatch".into(),
    ];
    // conformance of the route table with the dispatch code: every path
    // segment literal matched in src/daemon/http/dispatch/*.rs occurs in the
    // table (or is a known static/UI/login segment)
    {
        let dir = std::path::Path::new("/repo/src/daemon/http/dispatch");
        let ignore = ["ui", "assets", "auth", "logout", "callback", "rrdp", "api", "v1", "", "login", "ta.tal", "ta.cer"];
        let mut missing = Vec::new();
        let mut seen_segments = 0;
        if let Ok(rd) = std::fs::read_dir(dir) {
            for e in rd.flatten() {
                let text = std::fs::read_to_string(e.path()).unwrap_or_default();
                let mut rest = text.as_str();
                while let Some(i) = rest.find("Some(\"") {
                    let tail = &rest[i + 6..];
                    let Some(j) = tail.find('"') else { break };
                    let seg = &tail[..j];
                    rest = &tail[j..];
                    seen_segments += 1;
                    if ignore.contains(&seg) {
                        continue;
                    }
                    if !ROUTES.iter().any(|r| r.path.split('/').any(|p| p == seg)) {
                        missing.push(format!("{}: {seg}", e.file_name().to_string_lossy()));
                    }
                }
            }
        }
        if seen_segments == 0 {
            out.machinery_errors.push("cannot read the dispatch sources for the route table conformance check".into());
        }
        if !missing.is_empty() {
            out.machinery_errors.push(format!("route table (harness/src/routes.rs) is out of date: dispatch code matches segments not in the table: {missing:?}"));
        }
    }
    let defs = roles(tier.thorough);
    let root = crate::e1run::scratch_root();
    let _guard = crate::e1run::ScratchGuard(root.clone());
    let _ = std::fs::remove_dir_all(&root);
    std::fs::create_dir_all(&root).unwrap();
    let procs = 16usize;
    let mut findings: Vec<(Case, String, String)> = Vec::new();
    let mut total = 0u64;
    let mut outcomes: BTreeMap<String, u64> = BTreeMap::new();
    let thorough = tier.thorough;
    let results = workers(&root, "c13", procs, &mut out, |k| {
        let mut results = Vec::new();
        let bodies = build_fixture().expect("fixture");
        let pristine = std::path::PathBuf::from("../pristine-").with_file_name(format!("pristine-{k}"));
        let _ = std::fs::remove_dir_all(&pristine);
        copy_dir(std::path::Path::new("."), &pristine).expect("pristine copy");
        let mut n = 0u64;
        let mut oc: BTreeMap<String, u64> = BTreeMap::new();
        let mut idx = 0usize;
        for testbed in [true, false] {
            let cfg = config(&defs, testbed);
            let mut daemon = Some(Daemon::open(cfg.clone(), false).expect("daemon"));
            let mut baseline = disk_listing();
            // callers
            let mut callers: Vec<(String, Option<&RoleDef>, bool, Call)> = vec![
                ("anonymous".into(), None, false, Call::default()),
                ("wrong-token".into(), None, false, Call { bearer: Some("wrong".into()), ..Default::default() }),
                // near misses of the admin token ("secret"): a proper prefix,
                // an extension, another case
                ("token-prefix".into(), None, false, Call { bearer: Some("secre".into()), ..Default::default() }),
                ("token-extended".into(), None, false, Call { bearer: Some("secret1".into()), ..Default::default() }),
                ("token-other-case".into(), None, false, Call { bearer: Some("Secret".into()), ..Default::default() }),
                ("admin-token".into(), None, true, Call { bearer: Some("secret".into()), ..Default::default() }),
                ("unmapped-user".into(), None, false, Call { unix_user: Some("stranger".into()), ..Default::default() }),
            ];
            for d in &defs {
                callers.push((format!("u-{}", d.name), Some(d), false, Call { unix_user: Some(format!("u-{}", d.name)), ..Default::default() }));
            }
            for route in ROUTES {
                if !testbed && !(route.path.starts_with("/testbed") || route.path == "/testbed.tal") {
                    // the testbed-off variant only concerns the testbed routes
                    continue;
                }
                // (value in the path, CA it denotes)
                let targets: &[(&str, &str)] = if route.path.contains("{ca}") && route.path.starts_with("/api") {
                    if thorough { &[("ca", "ca"), ("other", "other"), ("c%61", "ca"), ("%6Fther", "other")] } else { &[("ca", "ca"), ("other", "other")] }
                } else {
                    &[("ca", "ca")]
                };
                for (target_path, target) in targets {
                    for (cname, role, admin, proto) in &callers {
                        idx += 1;
                        if idx % procs != k {
                            continue;
                        }
                        let mut allowed = expected(route, *role, target, *admin);
                        let mut expect_404 = false;
                        if route.path.starts_with("/testbed") && route.path != "/testbed.tal" && !testbed {
                            // not served at all when testbed mode is off
                            expect_404 = true;
                            allowed = false;
                        }
                        let path = fill(route.path, target_path, "kid", "parent", "AS65000", "ca", "1");
                        // valid body when a refusal is expected (an effect
                        // would show), an empty object otherwise
                        let body = match route.body {
                            Some("raw") => b"junk".to_vec(),
                            Some(b) if !allowed => serde_json::to_vec(bodies.get(b).unwrap_or(&json!({}))).unwrap(),
                            Some(_) => b"{}".to_vec(),
                            None => vec![],
                        };
                        let call = Call { method: route.method.into(), path: path.clone(), body, ..proto.clone() };
                        let case = Case {
                            method: route.method.into(),
                            path,
                            template: route.path.into(),
                            caller: cname.clone(),
                            target_ca: target.to_string(),
                            expect_allowed: allowed,
                            testbed,
                        };
                        n += 1;
                        let _ = crate::take_panics();
                        let reply = daemon.as_ref().unwrap().call(&call);
                        let panics = crate::take_panics();
                        let denied = reply.status == 401 || reply.status == 403;
                        *oc.entry(format!("{} -> {}", if allowed { "allowed" } else if expect_404 { "off" } else { "denied" }, reply.status)).or_default() += 1;
                        let mut restore = false;
                        if !panics.is_empty() || reply.broken.is_some() {
                            results.push(json!({"case": case, "kind": "machinery-or-panic", "detail": format!("{:?} {:?}", panics, reply.broken)}));
                            restore = true;
                        } else if expect_404 {
                            if reply.status != 404 {
                                results.push(json!({"case": case, "kind": "testbed-off-served", "detail": format!("testbed route answered {} although testbed mode is off", reply.status)}));
                            }
                        } else if allowed && denied {
                            results.push(json!({"case": case, "kind": "wrongly-denied", "detail": format!("status {}: {}", reply.status, reply.text().chars().take(200).collect::<String>())}));
                        } else if !allowed && !denied {
                            results.push(json!({"case": case, "kind": "wrongly-served", "detail": format!("status {} for a caller without the required permission(s) {:?}", reply.status, required(route))}));
                            restore = true;
                        }
                        let now = disk_listing();
                        if now != baseline {
                            if !allowed {
                                results.push(json!({"case": case, "kind": "refused-with-effect", "detail": format!("stored state changed: {}", diff(&baseline, &now))}));
                            }
                            restore = true;
                        }
                        if restore {
                            drop(daemon.take());
                            for d in ["data", "repo"] {
                                let _ = std::fs::remove_dir_all(d);
                                copy_dir(&pristine.join(d), std::path::Path::new(d)).expect("restore");
                            }
                            daemon = Some(Daemon::open(cfg.clone(), false).expect("daemon reopen"));
                            baseline = disk_listing();
                        }
                    }
                }
            }
            // listing endpoints only show what the caller may read
            if testbed {
                for (cname, role, admin, proto) in &callers {
                    idx += 1;
                    if idx % procs != k {
                        continue;
                    }
                    n += 1;
                    let call = Call { method: "GET".into(), path: "/api/v1/cas".into(), ..proto.clone() };
                    let reply = daemon.as_ref().unwrap().call(&call);
                    let case = Case { method: "GET".into(), path: "/api/v1/cas".into(), template: "/api/v1/cas (content)".into(), caller: cname.clone(), target_ca: "-".into(), expect_allowed: true, testbed };
                    if reply.status == 200 {
                        let v: Value = serde_json::from_slice(&reply.body).unwrap_or_default();
                        let listed: BTreeSet<String> = v["cas"].as_array().map(|a| a.iter().filter_map(|c| c["handle"].as_str().map(|s| s.to_string())).collect()).unwrap_or_default();
                        let all_cas = ["ca", "other", "parent", "testbed", "ta", "gkid", "skid"];
                        for c in all_cas {
                            let may = *admin || role.map(|r| r.is_allowed("ca-read", Some(c))).unwrap_or(false);
                            if listed.contains(c) && !may {
                                results.push(json!({"case": case, "kind": "list-leak", "detail": format!("CA list shows '{c}' to a caller who may not read it (listed: {listed:?})")}));
                            }
                        }
                        for c in ["ca", "other", "parent"] {
                            let may = *admin || role.map(|r| r.is_allowed("ca-read", Some(c))).unwrap_or(false);
                            if may && !listed.contains(c) {
                                results.push(json!({"case": case, "kind": "list-hides", "detail": format!("CA list hides '{c}' from a caller who may read it (listed: {listed:?})")}));
                            }
                        }
                    }
                    let call = Call { method: "GET".into(), path: "/api/v1/bulk/cas/issues".into(), ..proto.clone() };
                    let reply = daemon.as_ref().unwrap().call(&call);
                    if reply.status == 200 {
                        let v: Value = serde_json::from_slice(&reply.body).unwrap_or_default();
                        let case = Case { method: "GET".into(), path: "/api/v1/bulk/cas/issues".into(), template: "/api/v1/bulk/cas/issues (content)".into(), caller: cname.clone(), target_ca: "-".into(), expect_allowed: true, testbed };
                        if let Some(o) = v["cas"].as_object().or(v.as_object()) {
                            if *admin {
                                for c in ISSUE_CAS {
                                    if !o.contains_key(c) {
                                        results.push(json!({"machinery": format!("fixture: the admin's issues list does not show '{c}' (shown: {:?}); the listing check would be vacuous", o.keys().collect::<Vec<_>>())}));
                                    }
                                }
                            }
                            for c in o.keys() {
                                let may = *admin || role.map(|r| r.is_allowed("ca-read", Some(c))).unwrap_or(false);
                                if !may && ["ca", "other", "parent", "testbed", "ta", "gkid", "skid"].contains(&c.as_str()) {
                                    results.push(json!({"case": case, "kind": "list-leak", "detail": format!("issues list shows '{c}' to a caller who may not read it")}));
                                }
                            }
                        }
                    }
                }
            }
            drop(daemon.take());
        }
        let _ = std::fs::remove_dir_all(&pristine);
        results.push(json!({"count": n, "outcomes": oc}));
        results
    });
    for r in results {
        if let Some(n) = r.get("count") {
            total += n.as_u64().unwrap_or(0);
            if let Some(o) = r["outcomes"].as_object() {
                for (k, v) in o {
                    *outcomes.entry(k.clone()).or_default() += v.as_u64().unwrap_or(0);
                }
            }
            continue;
        }
        if let Ok(case) = serde_json::from_value::<Case>(r["case"].clone()) {
            findings.push((case, r["kind"].as_str().unwrap_or("").into(), r["detail"].as_str().unwrap_or("").into()));
        }
    }
    // one finding per (kind, route, caller class)
    let mut seen = BTreeSet::new();
    for (case, kind, detail) in findings {
        let caller_class = if case.caller.starts_with("u-") { "role-user" } else { case.caller.as_str() };
        let key = format!("{kind}|{} {}|{caller_class}", case.method, case.template);
        if !seen.insert(key) {
            continue;
        }
        out.findings.push(Finding {
            signature: format!("{kind}|{} {} @ caller={} target={} testbed={}", case.method, case.template, case.caller, case.target_ca, case.testbed),
            text: format!("{kind}: {} {} as {} (CA {}): {detail}", case.method, case.path, case.caller, case.target_ca),
            replay: json!({"case": case, "kind": kind, "detail": detail}),
        });
    }
    out.coverage = json!({
        "evaluations": total,
        "distinct_nontrivial": total,
        "states": 2,
        "transitions": total,
        "traces_validated_against_impl": total,
        "rule": format!("every route of the table ({} routes) x every caller (anonymous, wrong token, admin token, unmapped system user, one system user per role: {} roles) x addressed CA (ca / other for CA routes), with testbed mode on; the testbed routes again with testbed mode off; plus the content of the listing endpoints per caller. Expected verdict from the reference role semantics; a valid body is sent when a refusal is expected so that an effect would show; the fixture is restored after every request that changed the stored state", ROUTES.len(), defs.len()),
        "roles": defs.len(),
        "routes": ROUTES.len(),
        "outcomes": outcomes,
        "exhaustive": true,
    });
    out.finish()
}

fn diff(a: &[(String, u64)], b: &[(String, u64)]) -> String {
    let ma: BTreeMap<_, _> = a.iter().cloned().collect();
    let mb: BTreeMap<_, _> = b.iter().cloned().collect();
    for (k, v) in &mb {
        match ma.get(k) {
            None => return format!("{k} added"),
            Some(x) if x != v => return format!("{k} size {x} -> {v}"),
            _ => {}
        }
    }
    for k in ma.keys() {
        if !mb.contains_key(k) {
            return format!("{k} removed");
        }
    }
    String::new()
}

fn workers(root: &std::path::Path, tag: &str, procs: usize, out: &mut Outcome, f: impl Fn(usize) -> Vec<Value>) -> Vec<Value> {
    use std::io::Write;
    let mut pids = Vec::new();
    for k in 0..procs {
        let dir = root.join(format!("{tag}k{k}"));
        std::fs::create_dir_all(&dir).unwrap();
        let outf = root.join(format!("{tag}k{k}.json"));
        let _ = std::io::stdout().flush();
        let pid = unsafe { libc::fork() };
        if pid == 0 {
            std::env::set_current_dir(&dir).unwrap();
            let r = std::panic::catch_unwind(std::panic::AssertUnwindSafe(|| f(k)));
            let results = match r {
                Ok(v) => v,
                Err(p) => vec![json!({"machinery": format!("worker panicked: {}", crate::e1::panic_message(&p))})],
            };
            let _ = std::fs::write(&outf, serde_json::to_vec(&results).unwrap());
            unsafe { libc::_exit(0) };
        }
        pids.push((pid, outf, dir));
    }
    let mut all = Vec::new();
    for (pid, outf, dir) in pids {
        let mut st = 0;
        unsafe { libc::waitpid(pid, &mut st, 0) };
        let _ = std::fs::remove_dir_all(&dir);
        let Ok(bytes) = std::fs::read(&outf) else {
            out.machinery_errors.push(format!("{tag}: worker produced no result (status {st:#x})"));
            continue;
        };
        let results: Vec<Value> = serde_json::from_slice(&bytes).unwrap_or_default();
        for r in results {
            if let Some(m) = r.get("machinery") {
                out.machinery_errors.push(format!("{tag}: {m}"));
            } else {
                all.push(r);
            }
        }
    }
    all
}

#[allow(dead_code)]
fn unused(_: &World) {
    let _ = res("", "", "");
}
