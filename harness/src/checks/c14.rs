//! C14 — Manifests, CRLs and signed objects are refreshed in time with
//! rising numbers.

use std::collections::BTreeMap;
use std::sync::atomic::Ordering;

use crate::checks::c01::{self, C01Model, Intent};
use crate::clock;
use crate::e1::{Header, Model};
use crate::e1run::{self, Config, Spec};
use crate::ops::{Op, OpOutcome};
use crate::report::{Outcome, Tier};
use crate::rp::{self, RpResult};
use crate::world::{World, WorldCfg, default_timing};

#[derive(Clone, Debug)]
struct KeySetObs {
    mft_number: String,
    crl_number: String,
    next_update: i64,
    this_update: i64,
    repo_dir: String,
}

#[derive(Clone, Debug)]
struct ObjObs {
    serial: String,
    not_after: i64,
    kind: &'static str,
}

#[derive(Clone, Debug, Default)]
struct Obs {
    /// by issuing key (ski)
    sets: BTreeMap<String, KeySetObs>,
    /// signed objects by uri
    objs: BTreeMap<String, ObjObs>,
    view_hash: u64,
}

/// Decodes every manifest / CRL / signed object in the repository without
/// validating it (stale objects must be observable too).
fn observe(w: &World) -> Result<(Obs, RpResult), String> {
    use rpki::repository::aspa::Aspa;
    use rpki::repository::cert::Cert;
    use rpki::repository::crl::Crl;
    use rpki::repository::manifest::Manifest;
    use rpki::repository::roa::Roa;
    let (view, _n) = rp::view_from_rrdp(w)?;
    let r = rp::validate(w, &view);
    let mut o = Obs::default();
    let hexs = |b: &[u8]| hex::encode(b);
    let mut crl_numbers: BTreeMap<String, String> = BTreeMap::new();
    for (uri, bytes) in &view {
        if uri.ends_with(".crl")
            && let Ok(crl) = Crl::decode(bytes.clone())
        {
            crl_numbers.insert(
                hexs(crl.authority_key_identifier().as_slice()),
                crl.crl_number().to_string(),
            );
        }
    }
    for (uri, bytes) in &view {
        let dir = match uri.rfind('/') { Some(i) => &uri[..=i], None => uri.as_str() };
        if uri.ends_with(".mft") {
            if let Ok(m) = Manifest::decode(bytes.clone(), true) {
                let ski = m
                    .cert()
                    .authority_key_identifier()
                    .map(|k| hexs(k.as_slice()))
                    .unwrap_or_default();
                o.sets.insert(
                    ski.clone(),
                    KeySetObs {
                        mft_number: m.content().manifest_number().to_string(),
                        crl_number: crl_numbers.get(&ski).cloned().unwrap_or_default(),
                        next_update: m.content().next_update().timestamp(),
                        this_update: m.content().this_update().timestamp(),
                        repo_dir: dir.to_string(),
                    },
                );
            }
        } else if uri.ends_with(".roa") {
            if let Ok(x) = Roa::decode(bytes.clone(), true) {
                o.objs.insert(uri.clone(), ObjObs {
                    serial: x.cert().serial_number().to_string(),
                    not_after: x.cert().validity().not_after().timestamp(),
                    kind: "roa",
                });
            }
        } else if uri.ends_with(".asa") {
            if let Ok(x) = Aspa::decode(bytes.clone(), true) {
                o.objs.insert(uri.clone(), ObjObs {
                    serial: x.cert().serial_number().to_string(),
                    not_after: x.cert().validity().not_after().timestamp(),
                    kind: "asa",
                });
            }
        } else if uri.ends_with(".cer")
            && let Ok(c) = Cert::decode(bytes.clone())
            && !c.is_ca()
        {
            o.objs.insert(uri.clone(), ObjObs {
                serial: c.serial_number().to_string(),
                not_after: c.validity().not_after().timestamp(),
                kind: "router",
            });
        }
    }
    let mut s = String::new();
    for (k, v) in &view {
        s.push_str(k);
        s.push_str(&format!("{:x}", crate::fingerprint::h64(v, 5)));
    }
    o.view_hash = crate::fingerprint::h64(s.as_bytes(), 6);
    Ok((o, r))
}

fn num(s: &str) -> u128 {
    s.parse().unwrap_or(0)
}

#[derive(Clone)]
pub struct C14Model {
    pub inner: C01Model,
    pub margin_h: i64,
    pub next_h: i64,
    pub roa_reissue_weeks: i64,
    /// re-issue margins (weeks) of ASPA objects and router certificates where
    /// they differ from the ROA margin
    pub aspa_reissue_weeks: i64,
    pub bgpsec_reissue_weeks: i64,
    pub roa_valid_weeks: i64,
    /// observation of the previous state on this path
    last: Option<ObsBox>,
    /// observation between the republish and the renew phase of MAINTAIN
    mid: Option<ObsBox>,
}

#[derive(Clone)]
struct ObsBox(Obs);

/// Runs the due repository tasks (SyncRepo of a CA, RrdpUpdateIfNeeded) through
/// the real scheduler step and nothing else: other due tasks are parked in
/// the far future while this runs and put back at their original time
/// afterwards (public queue API only: pop / reschedule / schedule-soonest).
fn pump_repo_only(w: &mut World, out: &mut OpOutcome) {
    use krill::server::mq::{Priority, Task};
    use krill::server::scheduler::VerifStepOutcome as O;
    let is_repo = |name: &str| name.starts_with("sync_repo_") || name == "update_rrdp_if_needed";
    let far = Priority::from_timestamp_ms(((clock::now_epoch() + 20 * 365 * 86400) as u128) * 1000);
    let mut parked: Vec<(Task, u128)> = Vec::new();
    // park every due non-repository task
    for _ in 0..200 {
        let now = clock::now_millis();
        let due_other: Vec<(u128, String)> = w
            .pending_tasks()
            .into_iter()
            .filter(|(ts, n)| (*ts as i128) <= now && !is_repo(n))
            .collect();
        if due_other.is_empty() {
            break;
        }
        // pop hands out the earliest due task; park it if it is not a repo
        // task, otherwise put it straight back
        let Some((key, value)) = w.krill.tasks().pop() else { break };
        let name = key.as_str().split_once('-').map(|x| x.1).unwrap_or("").to_string();
        let orig_ts = due_other
            .iter()
            .find(|(_, n)| *n == name)
            .map(|(ts, _)| *ts)
            .unwrap_or(now as u128);
        if is_repo(&name) {
            // give it a slightly later time so the others come first
            let _ = w.krill.tasks().reschedule(&key, Priority::from_timestamp_ms(now as u128));
            // all remaining due_other are earlier or equal; continue
            // (termination: each iteration parks one or the loop bound hits)
            if let Ok(task) = serde_json::from_value::<Task>(value) {
                let _ = task;
            }
            // make sure we do not spin on the same repo task
            if due_other.iter().all(|(ts, _)| (*ts as i128) >= now) {
                break;
            }
            continue;
        }
        match serde_json::from_value::<Task>(value) {
            Ok(task) => {
                let _ = w.krill.tasks().reschedule(&key, far);
                parked.push((task, orig_ts));
            }
            Err(_) => {
                let _ = w.krill.tasks().reschedule(&key, far);
            }
        }
    }
    // now only repository tasks are due: run them with the real step
    for _ in 0..100 {
        let now = clock::now_millis();
        let due: Vec<String> = w
            .pending_tasks()
            .into_iter()
            .filter(|(ts, _)| (*ts as i128) <= now)
            .map(|(_, n)| n)
            .collect();
        if due.is_empty() {
            break;
        }
        if !due.iter().all(|n| is_repo(n)) {
            out.tasks.push(format!("(could not isolate repository tasks: due {due:?})"));
            break;
        }
        match w.step() {
            O::Processed { task_key, result, .. } => out.tasks.push(format!("{task_key}:{result}")),
            O::Idle => break,
            O::Fatal(f) => {
                out.fatal = Some(f);
                break;
            }
        }
    }
    // put the parked tasks back at their original time (soonest wins)
    for (task, ts) in parked {
        let _ = w.krill.tasks().schedule(task, Priority::from_timestamp_ms(ts));
    }
}

/// "maintenance run": what the scheduler's RepublishIfNeeded and
/// RenewObjectsIfNeeded tasks do, followed by the triggered tasks.
pub const MAINTAIN: Op = Op::Tick { secs: 0 };

impl C14Model {
    fn obj_margin(&self, kind: &str) -> i64 {
        let w = match kind {
            "asa" => self.aspa_reissue_weeks,
            "router" => self.bgpsec_reissue_weeks,
            _ => self.roa_reissue_weeks,
        };
        w * 7 * 86400
    }
}

impl Model for C14Model {
    fn alphabet(&mut self, w: &World, _depth: usize, _path: &[Op]) -> Vec<Op> {
        let c = || "ca".to_string();
        let mut ops = vec![MAINTAIN];
        // time steps relative to the earliest next-update in the repository
        if let Ok((o, _)) = observe(w) {
            let now = clock::now_epoch();
            if let Some(min_next) = o.sets.values().map(|s| s.next_update).min() {
                let edge = min_next - self.margin_h * 3600 - now;
                if edge - 1 > 0 {
                    ops.push(Op::Tick { secs: edge - 1 }); // one second before the margin
                }
                if edge + 2 > 0 {
                    ops.push(Op::Tick { secs: edge + 2 }); // just inside the margin
                }
            }
            // per kind of object: just inside its re-issue margin
            let mut edges = std::collections::BTreeSet::new();
            for kind in ["roa", "asa", "router"] {
                if let Some(min_exp) = o.objs.values().filter(|s| s.kind == kind).map(|s| s.not_after).min() {
                    edges.insert(min_exp - self.obj_margin(kind) - now);
                }
            }
            for edge in edges {
                if edge + 2 > 0 && edge + 2 < 400 * 86400 {
                    ops.push(Op::Tick { secs: edge + 2 });
                }
            }
        }
        ops.push(Op::Tick { secs: 3600 });
        ops.extend([
            Op::Roa { ca: c(), add: vec![c01::ROA_A.into()], del: vec![] },
            Op::Roa { ca: c(), add: vec![], del: vec![c01::ROA_A.into()] },
            Op::AspaSet { ca: c(), customer: 65000, providers: vec![65001] },
            Op::BgpsecAdd { ca: c(), asn: 65000, csr: 0 },
            Op::RollInit { ca: c() },
            Op::RollActivate { ca: c() },
            Op::RenewTa,
        ]);
        ops
    }

    fn apply(&mut self, w: &mut World, op: &Op) -> OpOutcome {
        crate::jitter::reset();
        if *op == MAINTAIN {
            // anything the repository still has to catch up with is not part
            // of the maintenance run: drain it first, then observe
            let mut out = OpOutcome { ok: true, err: None, tasks: vec![], fatal: None };
            pump_repo_only(w, &mut out);
            self.last = observe(w).ok().map(|(o, _)| ObsBox(o));
            let o1 = w.apply(&Op::Republish { force: false });
            out.ok = o1.ok;
            out.err = o1.err;
            pump_repo_only(w, &mut out);
            self.mid = observe(w).ok().map(|(o, _)| ObsBox(o));
            let o2 = w.apply(&Op::Renew);
            out.ok &= o2.ok;
            if out.err.is_none() {
                out.err = o2.err;
            }
            pump_repo_only(w, &mut out);
            return out;
        }
        // remember the pre-state observation for the transition oracle
        self.last = observe(w).ok().map(|(o, _)| ObsBox(o));
        if let Op::Tick { secs } = op {
            // time passes; the republish / renew tasks are explicit (MAINTAIN)
            let mut out = w.apply(op);
            if *secs >= 86_400 {
                // over such a span the other recurring tasks had their turn:
                // testbed TA renewal and every CA's refresh with its parents
                let _ = w.apply(&Op::RenewTa);
                match w.settle() {
                    Ok(t) => out.tasks.extend(t),
                    Err(f) => out.fatal = Some(f),
                }
            }
            return out;
        }
        match op {
            // roll steps: the repository catches up but the exchange with the
            // parent stays pending (as with a slow parent), so that staging /
            // old key sets exist while time passes
            Op::RollActivate { .. } => {
                let mut out = w.apply(op);
                pump_repo_only(w, &mut out);
                out
            }
            _ => w.apply_pumped(op),
        }
    }

    fn check(
        &mut self, w: &mut World, path: &[Op], out: &OpOutcome, hdr: &Header,
    ) -> Vec<(String, String)> {
        let op = path.last().unwrap();
        self.inner.intent.update(op, out);
        if let Some(f) = &out.fatal {
            return vec![("fatal".into(), f.clone())];
        }
        let (post, r) = match observe(w) {
            Ok(x) => x,
            Err(e) => return vec![("rrdp-view".into(), e)],
        };
        let pre = self.last.as_ref().map(|b| b.0.clone()).unwrap_or_default();
        let now = clock::now_epoch();
        if std::env::var("VERIF_DEBUG").is_ok() {
            for s in post.sets.values() {
                eprintln!("   [c14] {} nr {} next in {} s", c01::short_uri(&s.repo_dir), s.mft_number, s.next_update - now);
            }
        }
        let mut v = Vec::new();
        // numbers of every key set, in every state
        for (ski, s) in &post.sets {
            if s.mft_number != s.crl_number {
                v.push((
                    "numbers-disagree".into(),
                    format!("manifest number {} != CRL number {} in {}", s.mft_number, s.crl_number, c01::short_uri(&s.repo_dir)),
                ));
            }
            if let Some(p) = pre.sets.get(ski) {
                if num(&s.mft_number) < num(&p.mft_number) {
                    v.push((
                        "number-decreased".into(),
                        format!("manifest number went from {} to {} in {}", p.mft_number, s.mft_number, c01::short_uri(&s.repo_dir)),
                    ));
                }
            }
        }
        if *op != MAINTAIN {
            return v;
        }
        // ---- oracles of a maintenance run
        hdr.counters[0].fetch_add(1, Ordering::Relaxed);
        let margin = self.margin_h * 3600;
        let mut any_due = false;
        let mid = self.mid.as_ref().map(|b| b.0.clone()).unwrap_or_default();
        let ca_of = |dir: &str| -> String {
            dir.strip_prefix("rsync://localhost/repo/")
                .and_then(|s| s.split('/').next())
                .unwrap_or("")
                .to_string()
        };
        // which object kinds are due per CA (decides how many renew commands
        // re-issue that CA's sets in the second phase)
        let mut due_kinds: BTreeMap<String, std::collections::BTreeSet<&'static str>> = BTreeMap::new();
        for (uri, p) in &mid.objs {
            if now > p.not_after - self.obj_margin(p.kind) {
                due_kinds.entry(ca_of(uri)).or_default().insert(p.kind);
            }
        }
        // a class is re-issued as a whole when any of its key sets is due
        let mut due_dirs: std::collections::BTreeSet<String> = Default::default();
        for p in pre.sets.values() {
            if now > p.next_update - margin {
                due_dirs.insert(p.repo_dir.clone());
            }
        }
        for (ski, p) in &pre.sets {
            // the trust anchor's own set is renewed by the testbed TA task on
            // its own schedule, not by republish_all
            if p.repo_dir == "rsync://localhost/repo/" {
                continue;
            }
            let due = now > p.next_update - margin;
            let (Some(m), Some(s)) = (mid.sets.get(ski), post.sets.get(ski)) else { continue };
            // phase 1: republish_all(false)
            let inc1 = num(&m.mft_number) as i128 - num(&p.mft_number) as i128;
            let expect1 = if due_dirs.contains(&p.repo_dir) { 1 } else { 0 };
            if due {
                any_due = true;
                hdr.counters[1].fetch_add(1, Ordering::Relaxed);
            }
            if inc1 != expect1 {
                v.push((
                    if due { "not-refreshed".to_string() } else { "numbers-step".to_string() },
                    format!(
                        "republish run: key set in {} (next update in {} s, margin {} s, due: {due}) had its manifest number go {} -> {} (expected +{expect1})",
                        c01::short_uri(&p.repo_dir), p.next_update - now, margin, p.mft_number, m.mft_number
                    ),
                ));
            }
            // phase 2: renew_objects_all: one re-issue per renewing command
            let inc2 = num(&s.mft_number) as i128 - num(&m.mft_number) as i128;
            let expect2 = due_kinds.get(&ca_of(&p.repo_dir)).map(|k| k.len()).unwrap_or(0) as i128;
            if inc2 != expect2 {
                v.push((
                    "numbers-step".to_string(),
                    format!(
                        "renew run: manifest number of {} went {} -> {} but {} kind(s) of objects were due for re-issue there",
                        c01::short_uri(&p.repo_dir), m.mft_number, s.mft_number, expect2
                    ),
                ));
            }
            if due && !(s.this_update <= now && now < s.next_update) {
                v.push((
                    "window".into(),
                    format!("after the maintenance run the manifest window of {} does not contain the present", c01::short_uri(&s.repo_dir)),
                ));
            }
        }
        // objects within the re-issue margin of expiry
        let mut any_obj_due = false;
        for (uri, p) in &pre.objs {
            let obj_margin = self.obj_margin(p.kind);
            let due = now > p.not_after - obj_margin;
            if !due {
                continue;
            }
            any_obj_due = true;
            hdr.counters[2].fetch_add(1, Ordering::Relaxed);
            match post.objs.get(uri) {
                Some(s) if s.serial != p.serial && s.not_after > p.not_after => {}
                Some(s) => v.push((
                    "object-not-renewed".into(),
                    format!(
                        "{} {} expires in {} s (re-issue margin {} s) but was not re-issued by the maintenance run (serial changed: {}, not-after {} -> {})",
                        p.kind, c01::short_uri(uri), p.not_after - now, obj_margin, s.serial != p.serial, p.not_after, s.not_after
                    ),
                )),
                None => {} // withdrawn for another reason; the payload oracle decides
            }
        }
        if !any_due && !any_obj_due && pre.view_hash != post.view_hash {
            v.push((
                "changed-without-need".into(),
                "a maintenance run that found nothing due changed the repository".into(),
            ));
        }
        if !any_due && !any_obj_due {
            hdr.counters[3].fetch_add(1, Ordering::Relaxed);
        }
        // after the run every reachable window contains the present and the
        // payloads are unchanged by re-issuance
        for (uri, why) in &r.rejections {
            // a parent certificate does not get refreshed by these tasks;
            // everything else must be valid now
            v.push(("rp-reject".into(), format!("{why} [{}]", c01::short_uri(uri))));
        }
        for p in c01::compare_payloads(&r, &self.inner.intent) {
            v.push(("payload".into(), p));
        }
        v
    }
}

/// A `ca` in the middle of a key roll whose non-current key set (staging, or
/// old after activation) has a next-update time hours before the current
/// key's. Tries both jitter patterns and keeps the one that produces it.
fn mid_roll_build(activated: bool) -> Result<World, String> {
    // which pattern does it follows from the order in which krill creates
    // and re-issues the sets; the outcome is checked below
    let modes: Vec<u32> = std::env::var("VERIF_C14_JITTER_MODE")
        .ok()
        .map(|m| m.split(',').filter_map(|x| x.parse().ok()).collect())
        .unwrap_or_else(|| vec![1, if activated { 1 } else { 2 }]);
    crate::jitter::install(0);
    let mut w = c01::build_w3(cfg_jitter(24, 8, 52, 4, 4))?;
    // a forced re-issue of everything: the current key's set gets its jitter
    crate::jitter::install(modes[0]);
    let o = w.apply(&Op::Republish { force: true });
    if !o.ok {
        return Err(format!("republish: {:?}", o.err));
    }
    w.settle()?;
    let mode = modes[1];
    crate::jitter::install(mode);
    let o = w.apply(&Op::RollInit { ca: "ca".into() });
    if !o.ok {
        return Err(format!("roll init: {:?}", o.err));
    }
    w.settle()?;
    if activated {
        let mut out = OpOutcome { ok: true, err: None, tasks: vec![], fatal: None };
        crate::jitter::reset();
        let o = w.apply(&Op::RollActivate { ca: "ca".into() });
        if !o.ok {
            return Err(format!("roll activate: {:?}", o.err));
        }
        pump_repo_only(&mut w, &mut out);
        if let Some(f) = out.fatal {
            return Err(f);
        }
    }
    let (_, r) = observe(&w)?;
    let points: Vec<_> = r.cas.iter().filter(|p| p.repo_dir.ends_with("/ca/0/")).collect();
    let current = points.iter().find(|p| !p.products.is_empty()).map(|p| p.mft_next_update);
    let other = points.iter().find(|p| p.products.is_empty()).map(|p| p.mft_next_update);
    match (points.len(), current, other) {
        (2, Some(c), Some(o)) if o + 3 * 3600 <= c => Ok(w),
        x => Err(format!("jitter pattern {mode} does not make the non-current key set come due first: {x:?}")),
    }
}

fn cfg_jitter(next_h: u32, margin_h: u32, valid_w: u32, reissue_w: u32, jitter_h: u32) -> WorldCfg {
    let mut c = cfg(next_h, margin_h, valid_w, reissue_w);
    c.timing.timing_publish_next_jitter_hours = jitter_h;
    c
}

fn cfg(next_h: u32, margin_h: u32, valid_w: u32, reissue_w: u32) -> WorldCfg {
    let mut t = default_timing();
    t.timing_publish_next_hours = next_h;
    t.timing_publish_hours_before_next = margin_h;
    t.timing_roa_valid_weeks = valid_w;
    t.timing_roa_reissue_weeks_before = reissue_w;
    t.timing_aspa_valid_weeks = valid_w;
    t.timing_aspa_reissue_weeks_before = reissue_w;
    t.timing_bgpsec_valid_weeks = valid_w;
    t.timing_bgpsec_reissue_weeks_before = reissue_w;
    WorldCfg { timing: t, ..WorldCfg::default() }
}

pub fn run(tier: &Tier, args: &[String]) -> i32 {
    let mut out = Outcome::new("C14", tier, "model_checking");
    out.assumptions = vec![
        "time is the virtual clock; `Tick` operations place the clock one second before / two seconds inside each margin, plus one hour".into(),
        "a maintenance run = republish_all(false) + scheduling of repo syncs (as the RepublishIfNeeded task does) + renew_objects_all, then the triggered tasks".into(),
        "child CA certificates are refreshed by the child's own requests (covered by C02), not by these tasks; jitter is 0 except in the jitter4 configurations, where the harness decides it (hook H8): alternately none and the maximum, counted from the start of each operation".into(),
    ];
    let depth = crate::report::arg_value(args, "--depth")
        .and_then(|d| d.parse().ok())
        .unwrap_or(if tier.thorough { 5 } else { 4 });
    let cap = crate::report::arg_value(args, "--cap")
        .and_then(|d| d.parse().ok())
        .unwrap_or(if tier.thorough { 1800 } else { 55 });
    let mk = |next_h: i64, margin_h: i64, valid_w: i64, reissue_w: i64| C14Model {
        inner: C01Model { intent: Intent::default(), full_alphabet: false, two_parents: false },
        margin_h,
        next_h,
        roa_reissue_weeks: reissue_w,
        aspa_reissue_weeks: reissue_w,
        bgpsec_reissue_weeks: reissue_w,
        roa_valid_weeks: valid_w,
        last: None,
        mid: None,
    };
    let mut configs = vec![
        // each kind of object has its own re-issue margin (ROA 2, ASPA 4,
        // router certificate 6 weeks of 12); one of each is configured
        Config {
            name: "per-kind-margins-roa2-aspa4-router6".into(),
            build: Box::new(|| {
                let mut c = cfg(24, 8, 12, 2);
                c.timing.timing_aspa_reissue_weeks_before = 4;
                c.timing.timing_bgpsec_reissue_weeks_before = 6;
                // (thresholds 2/2: the four authorisations are published as
                // aggregated ROAs, one per AS)
                c.roa_aggregate_threshold = 2;
                c.roa_deaggregate_threshold = 2;
                let mut w = c01::build_w3(c)?;
                for op in [
                    Op::Roa { ca: "ca".into(), add: vec![c01::ROA_A.into(), c01::ROA_B.into(), c01::ROA_C.into(), c01::ROA_D.into()], del: vec![] },
                    Op::AspaSet { ca: "ca".into(), customer: 65000, providers: vec![65001] },
                    Op::BgpsecAdd { ca: "ca".into(), asn: 65000, csr: 0 },
                ] {
                    let o = w.apply_pumped(&op);
                    if !o.ok {
                        return Err(format!("{op}: {:?}", o.err));
                    }
                }
                w.settle()?;
                Ok(w)
            }),
            model: {
                let mut m = mk(24, 8, 12, 2);
                m.aspa_reissue_weeks = 4;
                m.bgpsec_reissue_weeks = 6;
                // the reference knows what the build configured
                let done = crate::ops::OpOutcome { ok: true, err: None, tasks: vec![], fatal: None };
                for op in [
                    Op::Roa { ca: "ca".into(), add: vec![c01::ROA_A.into(), c01::ROA_B.into(), c01::ROA_C.into(), c01::ROA_D.into()], del: vec![] },
                    Op::AspaSet { ca: "ca".into(), customer: 65000, providers: vec![65001] },
                    Op::BgpsecAdd { ca: "ca".into(), asn: 65000, csr: 0 },
                ] {
                    m.inner.intent.update(&op, &done);
                }
                m
            },
        },
        Config {
            name: "next24-margin8-roa52w4".into(),
            build: Box::new(|| c01::build_w3(cfg(24, 8, 52, 4))),
            model: mk(24, 8, 52, 4),
        },
        Config {
            // `ca` has two resource classes whose next-update times differ by
            // one hour (the second parent is added an hour later)
            name: "two-classes-staggered-next24-margin8".into(),
            build: Box::new(|| {
                let w = c01::build_w3(cfg(24, 8, 52, 4))?;
                clock::advance(3600);
                (|| -> crate::world::KResult<()> {
                    w.add_ca("parent2")?;
                    w.add_child_link("ta", "parent2", crate::world::res("AS65000-AS65010", "10.0.0.0/8", ""))?;
                    w.sync_parent("parent2", "ta")?;
                    w.sync_parent("parent2", "ta")?;
                    w.sync_ta()?;
                    w.sync_parent("parent2", "ta")?;
                    w.add_child_link("parent2", "ca", crate::world::res("AS65000", "10.0.0.0/16", ""))?;
                    Ok(())
                })()
                .map_err(|e| e.to_string())?;
                w.settle()?;
                Ok(w)
            }),
            model: mk(24, 8, 52, 4),
        },
        Config {
            // krill's default configuration adds up to four hours of random
            // jitter to every next-update time; here the harness decides
            // the jitter (hook H8): key sets of one class get different
            // next-update times although they are re-issued together
            name: "jitter4-alternating".into(),
            build: Box::new(|| {
                crate::jitter::install(1);
                c01::build_w3(cfg_jitter(24, 8, 52, 4, 4))
            }),
            model: mk(24, 8, 52, 4),
        },
        Config {
            // a roll is in progress and the new (staging) key's manifest and
            // CRL come due hours before the current key's
            name: "jitter4-staging-key-due-first".into(),
            build: Box::new(|| mid_roll_build(false)),
            model: mk(24, 8, 52, 4),
        },
        Config {
            // the same for the old key after activation (the parent has not
            // yet confirmed the revocation: only the repository is pumped)
            name: "jitter4-old-key-due-first".into(),
            build: Box::new(|| mid_roll_build(true)),
            model: mk(24, 8, 52, 4),
        },
    ];
    if tier.thorough {
        configs.push(Config {
            name: "next2-margin1-roa2w1".into(),
            build: Box::new(|| c01::build_w3(cfg(2, 1, 2, 1))),
            model: mk(2, 1, 2, 1),
        });
        configs.push(Config {
            name: "next3-margin2-roa3w2".into(),
            build: Box::new(|| c01::build_w3(cfg(3, 2, 3, 2))),
            model: mk(3, 2, 3, 2),
        });
    }
    e1run::run(
        Spec { property: "C14".into(), configs, depth, wall_cap_s: cap, procs: 16, min_states: 20 },
        &mut out,
    );
    out.finish()
}
