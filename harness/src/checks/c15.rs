//! C15 — the trust-anchor proxy and signer only accept each other's fresh
//! messages. Explicit-state exploration of request/response exchanges where
//! the harness carries the messages: genuine, replayed, stale, re-ordered,
//! cross-wired and modified ones, with two children requesting concurrently.

use krill::api::ta::{ApiTrustAnchorSignedRequest, TrustAnchorSignedRequest, TrustAnchorSignedResponse};
use serde_json::{json, Value};

use crate::e1::{Header, Model};
use crate::e1run::{self, Config, Spec};
use crate::ops::{Op, OpOutcome};
use crate::report::Tier;
use crate::world::{ca, res, World, WorldCfg};

#[derive(Clone, Default)]
pub struct C15Model {
    /// requests made so far (latest last; at most 2 kept)
    requests: Vec<ApiTrustAnchorSignedRequest>,
    /// responses produced so far (latest last; at most 2 kept)
    responses: Vec<TrustAnchorSignedResponse>,
    /// the nonce the reference considers open
    open: Option<String>,
    /// last seen numbers (manifest, crl) of the TA in proxy, signer, repo
    last_numbers: Option<(u64, u64, u64)>,
    last_mft_hash: Option<String>,
    /// what the last op did, for the oracle
    last: Option<Value>,
    thorough: bool,
    /// the TA private key, for re-initialising the signer
    ta_pem: String,
    /// how often the signer was re-initialised; responses remember the
    /// epoch in which they were signed
    epoch: u32,
    response_epoch: Vec<u32>,
    reinits_left: u32,
    /// second configuration: a child of the TA that the harness plays itself
    hchild: Option<std::sync::Arc<HChild>>,
    /// reference life cycle of that child's two keys: 0 nothing outstanding,
    /// 1 request open at the proxy, 2 response waiting to be collected
    hstate: [u8; 2],
    /// keys whose request went into the signer request that is open
    in_flight: Vec<u8>,
    hclass: Option<String>,
    /// what the child was answered last: "issue", "error <code>", ...
    last_child_reply: String,
}

pub struct HChild {
    signer: crate::cms::PoolSigner,
    keys: [usize; 2],
}

fn proxy_json(w: &World) -> Value {
    w.krill.ca_manager().get_trust_anchor_proxy().map(|p| serde_json::to_value(&*p).unwrap_or_default()).unwrap_or_default()
}

fn signer_json(w: &World) -> Value {
    w.krill.ca_manager().get_trust_anchor_signer().map(|p| serde_json::to_value(&*p).unwrap_or_default()).unwrap_or_default()
}

fn nonce_of_req(r: &ApiTrustAnchorSignedRequest) -> String {
    serde_json::to_value(&r.request.nonce).ok().and_then(|v| v.as_str().map(|s| s.to_string())).unwrap_or_default()
}

fn nonce_of_resp(r: &TrustAnchorSignedResponse) -> String {
    serde_json::to_value(&r.content().nonce).ok().and_then(|v| v.as_str().map(|s| s.to_string())).unwrap_or_default()
}

/// (manifest number in the proxy's copy, in the signer, in the repository)
fn numbers(w: &World) -> Result<(u64, u64, u64, String), String> {
    let p = proxy_json(w);
    let s = signer_json(w);
    let pn = p["signer"]["objects"]["revision"]["number"].as_u64().ok_or("no number in proxy")?;
    let sn = s["objects"]["revision"]["number"].as_u64().ok_or("no number in signer")?;
    let d = w.krill.repo_manager().get_publisher_details(crate::world::pub_h("ta")).map_err(|e| e.to_string())?;
    let mut rn = 0;
    let mut hash = String::new();
    for f in d.current_files {
        if f.uri.to_string().ends_with(".mft") {
            let bytes = f.base64.to_bytes();
            let mft = rpki::repository::manifest::Manifest::decode(bytes.as_ref(), false).map_err(|e| format!("TA manifest: {e}"))?;
            let n = mft.content().manifest_number();
            rn = u64::from_str_radix(&n.to_string(), 10).or_else(|_| u64::from_str_radix(&n.to_string(), 16)).unwrap_or(0);
            hash = hex::encode(&bytes[bytes.len().saturating_sub(16)..]);
        }
    }
    Ok((pn, sn, rn, hash))
}

impl C15Model {
    fn tamper_request(&self, slot: usize, tamper: u8) -> Option<TrustAnchorSignedRequest> {
        let n = self.requests.len();
        if slot >= n {
            return None;
        }
        let r = &self.requests[n - 1 - slot];
        let genuine: TrustAnchorSignedRequest = r.clone().into();
        let mut v = serde_json::to_value(&genuine).ok()?;
        match tamper {
            0 => {}
            // clear text altered: all child requests dropped
            1 => v["request"]["child_requests"] = json!([]),
            // clear text nonce replaced
            2 => v["request"]["nonce"] = json!("00000000-0000-4000-8000-000000000000"),
            // signed part taken from a response (signed by the signer's key)
            3 => {
                let resp = self.responses.last()?;
                let rv = serde_json::to_value(resp).ok()?;
                v["signed"] = rv["signed"].clone();
            }
            // signed part of the other pooled request
            4 => {
                if n < 2 {
                    return None;
                }
                let other: TrustAnchorSignedRequest = self.requests[n - 1 - (1 - slot.min(1))].clone().into();
                let ov = serde_json::to_value(&other).ok()?;
                v["signed"] = ov["signed"].clone();
            }
            _ => return None,
        }
        if tamper != 0 && serde_json::to_value(&genuine).ok()? == v {
            return None; // the alteration changes nothing here
        }
        serde_json::from_value(v).ok()
    }

    fn tamper_response(&self, slot: usize, tamper: u8) -> Option<TrustAnchorSignedResponse> {
        let n = self.responses.len();
        if slot >= n {
            return None;
        }
        let r = &self.responses[n - 1 - slot];
        let mut v = serde_json::to_value(r).ok()?;
        match tamper {
            0 => {}
            // clear-text nonce rewritten to the one that is open
            1 => v["response"]["nonce"] = json!(self.open.clone()?),
            // clear text altered: child responses dropped
            2 => v["response"]["child_responses"] = json!({}),
            // signed part taken from a request (signed by the proxy's key)
            3 => {
                let req = self.requests.last()?;
                let g: TrustAnchorSignedRequest = req.clone().into();
                let rv = serde_json::to_value(&g).ok()?;
                v["signed"] = rv["signed"].clone();
            }
            // signed part of the other pooled response, clear text of this
            4 => {
                if n < 2 {
                    return None;
                }
                let ov = serde_json::to_value(&self.responses[n - 1 - (1 - slot.min(1))]).ok()?;
                v["signed"] = ov["signed"].clone();
            }
            // objects revision number lowered in the clear text
            5 => v["response"]["objects"]["revision"]["number"] = json!(1),
            _ => return None,
        }
        if tamper != 0 && serde_json::to_value(r).ok()? == v {
            return None; // the alteration changes nothing here
        }
        serde_json::from_value(v).ok()
    }
}

impl Model for C15Model {
    fn alphabet(&mut self, _w: &World, depth: usize, _path: &[Op]) -> Vec<Op> {
        if self.hchild.is_some() {
            if depth == 0 {
                self.last_numbers = None;
            }
            // the harness-played child: genuine messages only, no krill
            // children (the first configuration has those)
            let mut v = vec![Op::TaChildIssue { key: 0 }, Op::TaChildIssue { key: 1 }, Op::TaMake];
            for slot in 0..self.requests.len().min(2) {
                v.push(Op::TaSign { slot, tamper: 0 });
            }
            for slot in 0..self.responses.len().min(2) {
                v.push(Op::TaDeliver { slot, tamper: 0 });
            }
            return v;
        }
        let mut v = vec![
            Op::SyncParent { ca: "c1".into(), parent: "ta".into() },
            Op::SyncParent { ca: "c2".into(), parent: "ta".into() },
            Op::TaMake,
        ];
        if depth == 0 {
            // first observation of the numbers
            self.last_numbers = None;
        }
        for slot in 0..self.requests.len().min(2) {
            let tampers: &[u8] = if self.thorough { &[0, 1, 2, 3, 4] } else { &[0, 1, 3] };
            for t in tampers {
                if self.tamper_request(slot, *t).is_some() {
                    v.push(Op::TaSign { slot, tamper: *t });
                }
            }
        }
        for slot in 0..self.responses.len().min(2) {
            let tampers: &[u8] = if self.thorough { &[0, 1, 2, 3, 4, 5] } else { &[0, 1, 2, 3] };
            for t in tampers {
                if self.tamper_response(slot, *t).is_some() {
                    v.push(Op::TaDeliver { slot, tamper: *t });
                }
            }
        }
        v.push(Op::RollInit { ca: "c1".into() });
        if self.reinits_left > 0 {
            v.push(Op::TaReinit);
        }
        v
    }

    fn apply(&mut self, w: &mut World, op: &Op) -> OpOutcome {
        let proxy_before = proxy_json(w);
        let signer_before = signer_json(w);
        let out = match op {
            Op::TaMake => match w.krill.ca_manager().ta_proxy_signer_make_request(&w.actor, &w.krill) {
                Ok(r) => {
                    self.requests.push(r);
                    if self.requests.len() > 2 {
                        self.requests.remove(0);
                    }
                    OpOutcome { ok: true, err: None, tasks: vec![], fatal: None }
                }
                Err(e) => OpOutcome { ok: false, err: Some(e.to_string()), tasks: vec![], fatal: None },
            },
            Op::TaSign { slot, tamper } => match self.tamper_request(*slot, *tamper) {
                None => OpOutcome { ok: false, err: Some("no such pooled request".into()), tasks: vec![], fatal: None },
                Some(req) => match w.krill.ca_manager().verif_ta_signer_process_request(req, &w.krill) {
                    Ok(resp) => {
                        self.responses.push(resp);
                        self.response_epoch.push(self.epoch);
                        if self.responses.len() > 2 {
                            self.responses.remove(0);
                            self.response_epoch.remove(0);
                        }
                        OpOutcome { ok: true, err: None, tasks: vec![], fatal: None }
                    }
                    Err(e) => OpOutcome { ok: false, err: Some(e.to_string()), tasks: vec![], fatal: None },
                },
            },
            Op::TaReinit => {
                let tb = w.config.testbed().unwrap().clone();
                let r = w.krill.ca_manager().verif_ta_signer_reinit(vec![tb.ta_uri().clone()], tb.ta_aia().clone(), self.ta_pem.clone(), &w.actor, &w.krill);
                if r.is_ok() {
                    self.epoch += 1;
                    self.reinits_left = self.reinits_left.saturating_sub(1);
                }
                OpOutcome::from_res(r)
            }
            Op::TaDeliver { slot, tamper } => match self.tamper_response(*slot, *tamper) {
                None => OpOutcome { ok: false, err: Some("no such pooled response".into()), tasks: vec![], fatal: None },
                Some(resp) => {
                    let r = w.krill.ca_manager().ta_proxy_signer_process_response(resp, &w.actor, &w.krill);
                    OpOutcome::from_res(r)
                }
            },
            Op::TaChildIssue { key } => {
                use rpki::ca::provisioning::{self, IssuanceRequest, RequestResourceLimit, ResourceClassName};
                let h = self.hchild.clone().expect("harness child");
                let me: rpki::ca::idexchange::ChildHandle = ca("h1").convert();
                let ta: rpki::ca::idexchange::ParentHandle = ca("ta").convert();
                if self.hclass.is_none() {
                    let list = provisioning::Message::list(me.clone().convert(), ta.clone().convert());
                    if let Ok(reply) = w.krill.ca_manager().verif_local_rfc6492(&ca("ta"), list, &w.actor, &w.krill) {
                        if let provisioning::Payload::ListResponse(l) = reply.into_payload() {
                            self.hclass = l.classes().first().map(|c| c.class_name().to_string());
                        }
                    }
                }
                let class = ResourceClassName::from(self.hclass.clone().unwrap_or_else(|| "default".into()));
                let csr = h.signer.csr(h.keys[*key as usize], "rsync://localhost/repo/h1/0/");
                let msg = provisioning::Message::issue(me.convert(), ta.convert(), IssuanceRequest::new(class, RequestResourceLimit::new(), csr));
                match w.krill.ca_manager().verif_local_rfc6492(&ca("ta"), msg, &w.actor, &w.krill) {
                    Ok(reply) => {
                        self.last_child_reply = match reply.into_payload() {
                            provisioning::Payload::IssueResponse(i) => {
                                let issued = i.into_issued();
                                if issued.cert().subject_key_identifier() == h.signer.public_key(h.keys[*key as usize]).key_identifier() {
                                    "issue".to_string()
                                } else {
                                    "issue-for-another-key".to_string()
                                }
                            }
                            provisioning::Payload::ErrorResponse(e) => format!("error {}", e.status()),
                            _ => "other".to_string(),
                        };
                        OpOutcome { ok: true, err: None, tasks: vec![], fatal: None }
                    }
                    Err(e) => {
                        self.last_child_reply = format!("failed: {e}");
                        OpOutcome { ok: false, err: Some(e.to_string()), tasks: vec![], fatal: None }
                    }
                }
            }
            // everything else: the real operation, without running the
            // scheduler (which would perform the whole exchange by itself)
            other => w.apply(other),
        };
        // publish what the proxy holds (the proxy's own repository sync)
        let _ = w.apply(&Op::SyncRepo { ca: "ta".into() });
        self.last = Some(json!({"proxy_before": proxy_before, "signer_before": signer_before}));
        out
    }

    fn check(&mut self, w: &mut World, path: &[Op], out: &OpOutcome, _hdr: &Header) -> Vec<(String, String)> {
        let mut v = Vec::new();
        let Some(op) = path.last() else { return v };
        if let Some(f) = &out.fatal {
            v.push(("fatal".into(), f.clone()));
        }
        let before = self.last.take().unwrap_or_default();
        let proxy_now = proxy_json(w);
        let signer_now = signer_json(w);
        let strip = |mut x: Value| {
            if let Some(o) = x.as_object_mut() {
                o.remove("version");
            }
            x
        };
        match op {
            Op::TaMake => {
                let expect = self.open.is_none();
                if out.ok != expect {
                    v.push(("one-open-request".into(), format!("making a signer request {} although the reference has open={:?}", if out.ok { "succeeded" } else { "failed" }, self.open)));
                }
                if out.ok {
                    self.open = self.requests.last().map(nonce_of_req);
                    self.in_flight = (0..2u8).filter(|k| self.hstate[*k as usize] == 1).collect();
                } else if strip(proxy_now.clone()) != strip(before["proxy_before"].clone()) {
                    v.push(("refused-but-changed".into(), "a refused make-request changed the proxy".into()));
                }
            }
            Op::TaSign { slot, tamper } => {
                if *tamper != 0 && out.ok {
                    v.push(("signer-accepted-forged-request".into(), format!("the signer processed pooled request {slot} altered by variant {tamper}")));
                }
                if *tamper == 0 && *slot == 0 && !out.ok {
                    v.push(("signer-refused-genuine-request".into(), format!("the signer refused the latest genuine request: {:?}", out.err)));
                }
                if !out.ok && strip(signer_now.clone()) != strip(before["signer_before"].clone()) {
                    v.push(("refused-but-changed".into(), "a refused request changed the signer".into()));
                }
            }
            Op::TaDeliver { slot, tamper } => {
                let n = self.responses.len();
                let resp_nonce = if *slot < n { nonce_of_resp(&self.responses[n - 1 - slot]) } else { String::new() };
                let from_current_signer = if *slot < n { self.response_epoch[n - 1 - slot] == self.epoch } else { false };
                let expect = *tamper == 0 && self.open.as_deref() == Some(resp_nonce.as_str()) && from_current_signer;
                if out.ok && !expect {
                    v.push((
                        "proxy-accepted-unfit-response".into(),
                        format!("the proxy accepted pooled response {slot} (variant {tamper}, nonce {}, signed by the {} signer) while the open request is {:?}", if Some(resp_nonce.as_str()) == self.open.as_deref() { "matches" } else { "differs" }, if from_current_signer { "current" } else { "retired" }, self.open.is_some()),
                    ));
                }
                if !out.ok && expect {
                    v.push(("proxy-refused-fit-response".into(), format!("the proxy refused the genuine response to its open request: {:?}", out.err)));
                }
                if out.ok {
                    self.open = None;
                    for k in std::mem::take(&mut self.in_flight) {
                        self.hstate[k as usize] = 2;
                    }
                } else if strip(proxy_now.clone()) != strip(before["proxy_before"].clone()) {
                    v.push(("refused-but-changed".into(), "a refused response changed the proxy".into()));
                }
            }
            Op::TaChildIssue { key } => {
                // each forwarded request gets exactly one response, and the
                // child gets it exactly once
                let k = *key as usize;
                let reply = self.last_child_reply.clone();
                match self.hstate[k] {
                    2 => {
                        if reply != "issue" {
                            v.push(("response-not-delivered".into(), format!("the signer answered the request for key {key} and the proxy accepted the response, but the child asking again is told '{reply}'")));
                        }
                        self.hstate[k] = 0;
                    }
                    st => {
                        if reply.starts_with("issue") {
                            v.push(("response-out-of-nowhere".into(), format!("the child is handed a certificate for key {key} although the reference has {} for it", if st == 1 { "an unanswered request" } else { "nothing outstanding (already collected)" })));
                        } else if !(reply == "error 1104" || reply == "error 1101") {
                            v.push(("child-request".into(), format!("request for key {key} answered with '{reply}'")));
                        }
                        self.hstate[k] = 1;
                    }
                }
            }
            _ => {}
        }
        // a response that waits for its child stays until that child asks
        if let (Some(was), Some(is)) = (before["proxy_before"]["child_details"].as_object(), proxy_now["child_details"].as_object()) {
            for (name, c) in was {
                let own_turn = match op {
                    Op::SyncParent { ca: c_name, .. } => c_name == name,
                    Op::TaChildIssue { .. } => name == "h1",
                    _ => false,
                };
                if own_turn {
                    continue;
                }
                if let Some(had) = c["open_responses"].as_object() {
                    for k in had.keys() {
                        if is.get(name).and_then(|n| n["open_responses"].get(k)).is_none() {
                            v.push(("response-vanished".into(), format!("the response waiting for child {name} (key {k}) disappeared from the proxy during {}", op.compact())));
                        }
                    }
                }
                // ... and a request that waits at the proxy stays until a
                // signer response answers it (then it is a waiting response)
                if let Some(had) = c["open_requests"].as_object() {
                    for k in had.keys() {
                        let still = is.get(name).and_then(|n| n["open_requests"].get(k)).is_some();
                        let answered = is.get(name).and_then(|n| n["open_responses"].get(k)).is_some();
                        if !still && !answered {
                            v.push(("request-vanished".into(), format!("the request of child {name} for key {k} that the proxy had accepted is gone from the proxy after {} without having been answered", op.compact())));
                        }
                    }
                }
            }
        }
        // the reference's view of the open request agrees with the proxy
        let proxy_open = proxy_now["open_signer_request"].as_str().map(|s| s.to_string());
        if proxy_open != self.open {
            v.push(("open-request-mismatch".into(), format!("proxy has open request {:?}, reference {:?}", proxy_open.is_some(), self.open.is_some())));
        }
        // numbers only go up, in the proxy's copy, the signer and the repository
        match numbers(w) {
            Ok((pn, sn, rn, hash)) => {
                // (a re-initialised signer is told by the operator where to
                // continue; the hook does not override the number, so the
                // numbers are not compared across a re-initialisation)
                if matches!(op, Op::TaReinit) {
                    self.last_numbers = None;
                    self.last_mft_hash = None;
                }
                if let Some((lp, ls, lr)) = self.last_numbers {
                    if pn < lp || sn < ls || rn < lr {
                        v.push(("number-decreased".into(), format!("TA manifest number went proxy {lp}->{pn}, signer {ls}->{sn}, repository {lr}->{rn}")));
                    }
                    if let Some(lh) = &self.last_mft_hash {
                        if *lh != hash && rn <= lr {
                            v.push(("number-reused".into(), format!("the published TA manifest changed but its number went {lr}->{rn}")));
                        }
                    }
                }
                self.last_numbers = Some((pn, sn, rn));
                self.last_mft_hash = Some(hash);
            }
            Err(e) => v.push(("ta-objects".into(), e)),
        }
        // every child request is answered once: a child never holds both an
        // open request and an open response for the same key, and once a
        // child has fetched its response the proxy no longer holds it
        if let Some(children) = proxy_now["child_details"].as_object() {
            for (name, c) in children {
                let reqs: Vec<String> = c["open_requests"].as_object().map(|o| o.keys().cloned().collect()).unwrap_or_default();
                let resps: Vec<String> = c["open_responses"].as_object().map(|o| o.keys().cloned().collect()).unwrap_or_default();
                for k in &reqs {
                    if resps.contains(k) {
                        v.push(("request-and-response".into(), format!("child {name}: key {k} has an open request and an open response at the same time")));
                    }
                }
                if let Op::SyncParent { ca: c_name, .. } = op {
                    if c_name == name && out.ok {
                        let had: Vec<String> = before["proxy_before"]["child_details"][name]["open_responses"].as_object().map(|o| o.keys().cloned().collect()).unwrap_or_default();
                        for k in had {
                            if resps.contains(&k) {
                                v.push(("response-not-consumed".into(), format!("child {name} synchronised but the response for key {k} is still held by the proxy")));
                            }
                        }
                    }
                }
            }
        }
        // the children's certificates are published exactly when issued:
        // relying-party walk must stay clean
        match crate::rp::view_from_lists(w) {
            Ok(view) => {
                let r = crate::rp::validate(w, &view);
                // (the children never run their own repository sync in this
                // model: their publication points stay empty)
                let e: Vec<String> = r
                    .rejections
                    .iter()
                    .filter(|(u, why)| !((why.contains("no manifest") || why.contains("manifest")) && (why.contains("/c1/") || why.contains("/c2/") || why.contains("/h1/") || u.contains("/c1/") || u.contains("/c2/") || u.contains("/h1/"))))
                    .map(|(u, why)| format!("{u}: {why}"))
                    .collect();
                if !e.is_empty() {
                    v.push(("rp".into(), format!("{e:?}")));
                }
            }
            Err(e) => v.push(("rp".into(), e)),
        }
        v
    }

    fn fingerprint(&mut self, w: &World) -> (u64, u64) {
        let mut c = crate::fingerprint::canonical(w);
        if let Some(o) = c.as_object_mut() {
            // tasks are never run in this model; their accumulation is not state
            o.remove("queue");
        }
        let pool = json!({
            "requests": self.requests.iter().map(|r| Some(nonce_of_req(r)) == self.open).collect::<Vec<_>>(),
            "responses": self.responses.iter().map(|r| Some(nonce_of_resp(r)) == self.open).collect::<Vec<_>>(),
            "resp_req": self.responses.iter().map(|r| self.requests.iter().position(|q| nonce_of_req(q) == nonce_of_resp(r))).collect::<Vec<_>>(),
            "open": self.open.is_some(),
            "resp_current": self.response_epoch.iter().map(|e| *e == self.epoch).collect::<Vec<_>>(),
            "reinits_left": self.reinits_left,
            "hstate": self.hstate,
            "in_flight": self.in_flight,
        });
        let text = format!("{c}{pool}");
        crate::fingerprint::h128(text.as_bytes())
    }
}

fn ta_pem() -> String {
    // a fixed key from the end of the pool (never handed out otherwise)
    crate::keys::nth_persistent(127).expect("key pool")
}

fn build() -> Result<World, String> {
    *crate::world::TA_KEY_PEM.lock().unwrap() = Some(ta_pem());
    let w = World::new(WorldCfg::default()).map_err(|e| e.to_string());
    *crate::world::TA_KEY_PEM.lock().unwrap() = None;
    let w = w?;
    for (c, r) in [("c1", res("AS65000-AS65010", "10.0.0.0/8", "")), ("c2", res("AS65100", "192.168.0.0/16", "2001:db8::/32"))] {
        w.add_ca(c).map_err(|e| e.to_string())?;
        w.add_child_link("ta", c, r).map_err(|e| e.to_string())?;
    }
    let _ = ca("c1");
    Ok(w)
}

/// The TA with one child that the harness plays itself (plus nothing else).
fn build_hchild() -> Result<World, String> {
    *crate::world::TA_KEY_PEM.lock().unwrap() = Some(ta_pem());
    let w = World::new(WorldCfg::default()).map_err(|e| e.to_string());
    *crate::world::TA_KEY_PEM.lock().unwrap() = None;
    let w = w?;
    let signer = crate::cms::PoolSigner::new();
    let id = signer.new_key();
    let req = krill::api::admin::AddChildRequest {
        handle: ca("h1").convert(),
        resources: res("AS65000-AS65010", "10.0.0.0/8", ""),
        id_cert: signer.id_cert(id),
    };
    w.krill.ca_manager().ca_add_child(&ca("ta"), req, &w.actor, &w.krill).map_err(|e| format!("add child h1: {e}"))?;
    Ok(w)
}

fn hchild() -> std::sync::Arc<HChild> {
    // the child's two CA keys; fixed pool keys, so that every process of the
    // exploration has the same ones
    let signer = crate::cms::PoolSigner::new_fixed(&[125, 126]);
    std::sync::Arc::new(HChild { signer, keys: [0, 1] })
}

//------------ concurrent collection of a waiting response (engine E2) -------

/// The issue request of the harness-played child for key `key`.
fn hchild_issue_msg(w: &World, h: &HChild, key: usize) -> Result<rpki::ca::provisioning::Message, String> {
    use rpki::ca::provisioning::{self, IssuanceRequest, RequestResourceLimit, ResourceClassName};
    let me: rpki::ca::idexchange::ChildHandle = ca("h1").convert();
    let ta: rpki::ca::idexchange::ParentHandle = ca("ta").convert();
    let list = provisioning::Message::list(me.clone().convert(), ta.clone().convert());
    let reply = w.krill.ca_manager().verif_local_rfc6492(&ca("ta"), list, &w.actor, &w.krill).map_err(|e| format!("list: {e}"))?;
    let class = match reply.into_payload() {
        provisioning::Payload::ListResponse(l) => l.classes().first().map(|c| c.class_name().to_string()),
        _ => None,
    }
    .ok_or("no class in the list response")?;
    let csr = h.signer.csr(h.keys[key], "rsync://localhost/repo/h1/0/");
    Ok(provisioning::Message::issue(me.convert(), ta.convert(), IssuanceRequest::new(ResourceClassName::from(class), RequestResourceLimit::new(), csr)))
}

fn reply_kind(r: Result<rpki::ca::provisioning::Message, krill::commons::error::Error>, h: &HChild) -> String {
    use rpki::ca::provisioning;
    match r {
        Ok(reply) => match reply.into_payload() {
            provisioning::Payload::IssueResponse(i) => {
                let ki = i.into_issued().cert().subject_key_identifier();
                match (0..2).find(|k| h.signer.public_key(h.keys[*k]).key_identifier() == ki) {
                    Some(k) => format!("issue-key{k}"),
                    None => "issue-unknown-key".into(),
                }
            }
            provisioning::Payload::ErrorResponse(e) => format!("error {}", e.status()),
            _ => "other".into(),
        },
        Err(e) => format!("failed: {e}"),
    }
}

/// One execution: responses for the child's key(s) are waiting at the proxy;
/// the child's requests arrive on two threads at the same time (`variant`
/// "same-key": both ask for key 0; "two-keys": one for each key).
fn collect_exec(template: &std::path::Path, variant: &str, prefix: &[usize]) -> crate::e2::ExecOutcome {
    let mut out = crate::e2::ExecOutcome::default();
    if let Err(e) = crate::e3::copy_dir(template, std::path::Path::new(".")) {
        out.violations.push(("machinery".into(), format!("copy: {e}")));
        return out;
    }
    let w = match World::reopen(WorldCfg::default()) {
        Ok(w) => w,
        Err(e) => {
            out.violations.push(("machinery".into(), e.to_string()));
            return out;
        }
    };
    let h = hchild();
    let keys: [usize; 2] = if variant == "same-key" { [0, 0] } else { [0, 1] };
    let mut msgs = Vec::new();
    for k in keys {
        match hchild_issue_msg(&w, &h, k) {
            Ok(m) => msgs.push(m),
            Err(e) => {
                out.violations.push(("machinery".into(), e));
                return out;
            }
        }
    }
    let mut bodies: Vec<Box<dyn FnOnce() -> Vec<String> + Send>> = Vec::new();
    for m in msgs {
        let (k, a, h2) = (w.krill.clone(), w.actor.clone(), h.clone());
        bodies.push(Box::new(move || vec![reply_kind(k.ca_manager().verif_local_rfc6492(&ca("ta"), m, &a, &k), &h2)]));
    }
    let result = crate::e2::run_schedule(bodies, prefix, 400);
    out.result = result.clone();
    if let Some(d) = &result.deadlock {
        out.violations.push(("deadlock".into(), d.clone()));
        return out;
    }
    let replies: Vec<String> = result.outputs.iter().map(|o| o.join(",")).collect();
    for o in &replies {
        if o.starts_with("PANIC") {
            out.violations.push(("panic".into(), o.clone()));
        }
    }
    // each waiting response is handed out exactly once
    for key in 0..2 {
        let asked = keys.iter().filter(|k| **k == key).count();
        if asked == 0 {
            continue;
        }
        let got = replies.iter().filter(|r| **r == format!("issue-key{key}")).count();
        if got != 1 {
            out.violations.push((
                "delivery-count".into(),
                format!("the one response waiting for key {key} of h1 was handed to the child {got} times by {asked} concurrent request(s) (replies: {replies:?})"),
            ));
        }
    }
    // ... and is gone from the proxy afterwards
    let p = proxy_json(&w);
    let waiting = p["child_details"]["h1"]["open_responses"].as_object().map(|o| o.len()).unwrap_or(0);
    let distinct_asked = if keys[0] == keys[1] { 1 } else { 2 };
    if waiting != 2 - distinct_asked {
        out.violations.push(("response-kept".into(), format!("two responses were waiting and the child collected for {distinct_asked} key(s); the proxy now holds {waiting} response(s) for it (replies: {replies:?})")));
    }
    if w.krill.ca_manager().get_trust_anchor_proxy().is_err() {
        out.violations.push(("load".into(), "the proxy does not load after the concurrent requests".into()));
    }
    out.outcome = replies.join(" | ");
    out
}

pub fn run_concurrent_collect(tier: &Tier, out: &mut crate::report::Outcome) -> Value {
    let root = crate::e1run::scratch_root().with_extension("c15i");
    let _guard = crate::e1run::ScratchGuard(root.clone());
    let _ = std::fs::remove_dir_all(&root);
    std::fs::create_dir_all(&root).unwrap();
    let template = root.join("template");
    std::fs::create_dir_all(&template).unwrap();
    let (built, _) = crate::e3::fork_in_dir(&template, || -> Result<(usize, usize), String> {
        let mut w = build_hchild()?;
        let mut m = C15Model { ta_pem: ta_pem(), hchild: Some(hchild()), ..Default::default() };
        for op in [Op::TaChildIssue { key: 0 }, Op::TaChildIssue { key: 1 }, Op::TaMake, Op::TaSign { slot: 0, tamper: 0 }, Op::TaDeliver { slot: 0, tamper: 0 }] {
            let o = m.apply(&mut w, &op);
            if !o.ok {
                return Err(format!("{op}: {:?}", o.err));
            }
        }
        let p = proxy_json(&w);
        let waiting = p["child_details"]["h1"]["open_responses"].as_object().map(|o| o.len()).unwrap_or(0);
        Ok((crate::keys::persistent_used(), waiting))
    });
    let Some(Ok((keys_used, waiting))) = built else {
        out.machinery_errors.push(format!("concurrent collection: template build failed: {built:?}"));
        return json!({});
    };
    if waiting != 2 {
        out.machinery_errors.push(format!("concurrent collection: expected two waiting responses in the template, the proxy shows {waiting}"));
        return json!({});
    }
    crate::keys::skip(keys_used + 8);
    let bound = if tier.thorough { 3 } else { 2 };
    let mut cov = Vec::new();
    for variant in ["same-key", "two-keys"] {
        let xroot = root.join(variant);
        std::fs::create_dir_all(&xroot).unwrap();
        let tpl = template.clone();
        let stats = crate::e2::explore(&xroot, bound, if tier.thorough { 20_000 } else { 1_500 }, 16, std::time::Duration::from_secs(if tier.thorough { 600 } else { 20 }), false, &|prefix| {
            collect_exec(&tpl, variant, prefix)
        });
        for m in &stats.machinery {
            out.machinery_errors.push(format!("concurrent collection: {m}"));
        }
        let mut seen = std::collections::BTreeSet::new();
        for (prefix, kind, detail, result) in &stats.violations {
            if kind == "machinery" {
                out.machinery_errors.push(format!("concurrent collection: {detail}"));
                continue;
            }
            let key = format!("{kind}|{}", crate::e1::normalize(detail));
            if !seen.insert(key.clone()) {
                continue;
            }
            out.findings.push(crate::report::Finding {
                signature: format!("{key} @ concurrent-collect={variant}"),
                text: format!("[concurrent collection, {variant}] {kind}: {detail}; schedule {prefix:?}"),
                replay: json!({"part": "concurrent-collect", "variant": variant, "schedule": prefix, "trace": result.trace, "outputs": result.outputs, "kind": kind, "detail": detail}),
            });
        }
        cov.push(json!({
            "variant": variant, "preemption_bound": bound, "schedules": stats.executions, "choice_points": stats.choice_points,
            "distinct_outcomes": stats.distinct_outcomes, "cap_hit": stats.capped, "schedules_not_followed_exactly": stats.diverged,
        }));
    }
    json!({"what": "responses for the harness-played child wait at the proxy; the child's requests (same key twice / one per key) arrive on two threads under the controlled scheduler: every waiting response is handed out exactly once and is gone afterwards", "variants": cov})
}

pub fn run(tier: &Tier, args: &[String]) -> i32 {
    let depth = crate::report::arg_value(args, "--depth").and_then(|d| d.parse().ok()).unwrap_or(if tier.thorough { 10 } else { 7 });
    let cap = crate::report::arg_value(args, "--cap").and_then(|d| d.parse().ok()).unwrap_or(if tier.thorough { 1800 } else { 40 });
    let mut out = crate::report::Outcome::new("C15", tier, "model_checking");
    out.assumptions = vec![
        "the harness carries the messages between the embedded proxy and signer (hook H7 lets the signer process a request on its own); the scheduler is not run, so the exchange never happens by itself".into(),
        "pool: the two most recent requests and responses; alterations: clear text changed (child entries dropped, nonce rewritten to the open one, revision number lowered), signed part swapped with that of the other pooled message or with a message signed by the other party's key (cross-wiring)".into(),
        "signer re-initialisation (hook H7: the signer aggregate is dropped and initialised again with the same TA key, hence a new identity key, and the proxy is updated) happens at most once per path; manifest numbers are not compared across it".into(),
        "nonces are random (uuid); they are compared only for equality".into(),
    ];
    let only = crate::report::arg_value(args, "--config");
    if only.as_deref().map(|c| c == "ta-two-children").unwrap_or(true) {
        e1run::run(
            Spec {
                property: "C15".into(),
                configs: vec![Config {
                    name: "ta-two-children".into(),
                    build: Box::new(build),
                    model: C15Model { thorough: tier.thorough, ta_pem: ta_pem(), reinits_left: 1, ..Default::default() },
                }],
                depth,
                wall_cap_s: if tier.thorough { cap } else { cap * 7 / 10 },
                procs: 16,
                min_states: 20,
            },
            &mut out,
        );
    }
    if only.as_deref().map(|c| c == "ta-harness-child").unwrap_or(true) {
        // few operations, small states: deeper (two complete exchanges plus
        // the child's requests need eight steps)
        e1run::run(
            Spec {
                property: "C15".into(),
                configs: vec![Config {
                    name: "ta-harness-child".into(),
                    build: Box::new(build_hchild),
                    model: C15Model { thorough: tier.thorough, ta_pem: ta_pem(), reinits_left: 0, hchild: Some(hchild()), ..Default::default() },
                }],
                depth: depth + if tier.thorough { 2 } else { 1 },
                wall_cap_s: if tier.thorough { cap } else { cap * 3 / 10 },
                procs: 16,
                min_states: 20,
            },
            &mut out,
        );
    }
    if only.is_none() && crate::report::arg_value(args, "--replay").is_none() {
        let cc = run_concurrent_collect(tier, &mut out);
        if let Some(c) = out.coverage.as_object_mut() {
            c.insert("concurrent_collection".into(), cc);
        }
    }
    out.finish()
}
