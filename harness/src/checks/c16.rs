//! C16 — untrusted input never brings the daemon down.
//! Bounded-exhaustive structured mutation of valid inputs, sent to the real
//! entry points: (A) CMS bytes at CaManager::rfc6492 / RepositoryManager::
//! rfc8181, (B) validly signed CMS with hostile XML content, (C) the HTTP API
//! (real dispatch, authentication, body limits, JSON decoding, manager calls)
//! through an in-process HTTP connection.

use std::collections::BTreeMap;

use bytes::Bytes;
use rpki::ca::sigmsg::SignedMessage;
use rpki::repository::x509::{Time, Validity};
use serde_json::{json, Value};

use crate::checks::c12::{self, Req};
use crate::daemon::{Call, Daemon};
use crate::report::{Finding, Outcome, Tier};
use crate::routes::{fill, ROUTES};
use crate::world::{ca, pub_h, res, World, WorldCfg};

/// names and sizes of everything stored, except the status store
fn disk_listing() -> Vec<(String, u64)> {
    fn walk(p: &std::path::Path, out: &mut Vec<(String, u64)>) {
        let Ok(rd) = std::fs::read_dir(p) else { return };
        for e in rd.flatten() {
            let path = e.path();
            let name = path.to_string_lossy().to_string();
            if name.contains("/status") || name.contains("/.tmp") || name.contains("/.locks") || name.contains("/login_sessions") {
                continue;
            }
            match e.file_type() {
                Ok(t) if t.is_dir() => walk(&path, out),
                Ok(_) => out.push((name, e.metadata().map(|m| m.len()).unwrap_or(0))),
                _ => {}
            }
        }
    }
    let mut v = Vec::new();
    walk(std::path::Path::new("data"), &mut v);
    walk(std::path::Path::new("repo"), &mut v);
    v.sort();
    v
}

/// Difference between two listings that is a change of state: a new audit
/// record of a *rejected* command (`command-N.json` with an error effect) is
/// not (C07: a rejected command leaves exactly one audit record).
fn state_change(a: &[(String, u64)], b: &[(String, u64)]) -> Option<String> {
    let ma: BTreeMap<_, _> = a.iter().cloned().collect();
    let mb: BTreeMap<_, _> = b.iter().cloned().collect();
    for (k, v) in &mb {
        let is_new = !ma.contains_key(k);
        if is_new || ma.get(k) != Some(v) {
            let fname = k.rsplit('/').next().unwrap_or("");
            if is_new && fname.starts_with("command-") && fname.ends_with(".json") {
                let rejected = std::fs::read(k)
                    .ok()
                    .and_then(|b| serde_json::from_slice::<Value>(&b).ok())
                    .map(|v| v["effect"]["result"] == "error")
                    .unwrap_or(false);
                if rejected {
                    continue;
                }
                return Some(format!("{k} added (a command that took effect)"));
            }
            return Some(if is_new { format!("{k} added") } else { format!("{k} size {:?} -> {v}", ma.get(k)) });
        }
    }
    for k in ma.keys() {
        if !mb.contains_key(k) {
            return Some(format!("{k} removed"));
        }
    }
    None
}

#[allow(dead_code)]
fn listing_diff(a: &[(String, u64)], b: &[(String, u64)]) -> String {
    let ma: BTreeMap<_, _> = a.iter().cloned().collect();
    let mb: BTreeMap<_, _> = b.iter().cloned().collect();
    for (k, v) in &mb {
        match ma.get(k) {
            None => return format!("{k} added"),
            Some(x) if x != v => return format!("{k} size {x} -> {v}"),
            _ => {}
        }
    }
    for k in ma.keys() {
        if !mb.contains_key(k) {
            return format!("{k} removed");
        }
    }
    String::new()
}

//------------ byte-level mutations -------------------------------------------

/// Deterministic structured mutations of a byte string.
fn byte_mutations(orig: &[u8], thorough: bool) -> Vec<(String, Vec<u8>)> {
    let mut v = Vec::new();
    let n = orig.len();
    for l in 0..n {
        v.push((format!("truncate:{l}"), orig[..l].to_vec()));
    }
    let subst: &[u8] = if thorough { &[0x00, 0xff, 0x30, 0x80, 0x7f, 0xa0, 0x02, 0x04, 0x31] } else { &[0x00, 0xff, 0x80] };
    for i in 0..n {
        for s in subst {
            if orig[i] != *s {
                let mut m = orig.to_vec();
                m[i] = *s;
                v.push((format!("subst:{i}:{s:#x}"), m));
            }
        }
        if thorough {
            for d in [1u8, 0xff] {
                let mut m = orig.to_vec();
                m[i] = m[i].wrapping_add(d);
                v.push((format!("add:{i}:{d:#x}"), m));
            }
        }
        let mut m = orig.to_vec();
        m.remove(i);
        v.push((format!("delete:{i}"), m));
        if thorough || i % 4 == 0 {
            let mut m = orig.to_vec();
            m.insert(i, orig[i]);
            v.push((format!("dup:{i}"), m));
        }
    }
    // appended garbage
    for extra in [vec![0u8], vec![0x30, 0x00], vec![0xff; 16]] {
        let mut m = orig.to_vec();
        m.extend_from_slice(&extra);
        v.push((format!("append:{}", extra.len()), m));
    }
    v
}

/// All byte strings of length <= 2 (thorough) / <= 1 (quick) plus a few
/// DER-shaped stubs.
fn tiny_inputs(thorough: bool) -> Vec<(String, Vec<u8>)> {
    let mut v = vec![("empty".to_string(), vec![])];
    for a in 0..=255u8 {
        v.push((format!("byte:{a:#x}"), vec![a]));
    }
    if thorough {
        for a in 0..=255u8 {
            for b in 0..=255u8 {
                v.push((format!("bytes:{a:#x},{b:#x}"), vec![a, b]));
            }
        }
    }
    for (name, b) in [
        ("seq-indef", vec![0x30u8, 0x80]),
        ("seq-huge-len", vec![0x30, 0x84, 0xff, 0xff, 0xff, 0xff]),
        ("seq-len-overflow", vec![0x30, 0x88, 0xff, 0xff, 0xff, 0xff, 0xff, 0xff, 0xff, 0xff]),
        ("nested", [0x30u8, 0x80].repeat(2000)),
        ("oid-only", vec![0x06, 0x09, 0x2a, 0x86, 0x48, 0x86, 0xf7, 0x0d, 0x01, 0x07, 0x02]),
        ("xml", b"<message xmlns=\"http://www.apnic.net/specs/rescerts/up-down/\" version=\"1\"/>".to_vec()),
        ("text", b"hello world".to_vec()),
        ("zeros", vec![0u8; 4096]),
    ] {
        v.push((name.to_string(), b));
    }
    v
}

fn copy_dir(src: &std::path::Path, dst: &std::path::Path) -> std::io::Result<()> {
    std::fs::create_dir_all(dst)?;
    for entry in std::fs::read_dir(src)? {
        let entry = entry?;
        let to = dst.join(entry.file_name());
        if entry.file_type()?.is_dir() {
            copy_dir(&entry.path(), &to)?;
        } else {
            std::fs::copy(entry.path(), &to)?;
        }
    }
    Ok(())
}

//------------ XML-level mutations (validly signed) ----------------------------

fn xml_mutations(orig: &[u8], thorough: bool) -> Vec<(String, Vec<u8>)> {
    let mut v = Vec::new();
    let n = orig.len();
    for l in 0..n {
        v.push((format!("xml-truncate:{l}"), orig[..l].to_vec()));
    }
    let subst: &[u8] = if thorough { b"<>\"&\0 /='A;\xff\n" } else { b"<\"&\0\xff" };
    for i in 0..n {
        for s in subst {
            if orig[i] != *s {
                let mut m = orig.to_vec();
                m[i] = *s;
                v.push((format!("xml-subst:{i}:{s:#x}"), m));
            }
        }
        if thorough {
            let mut m = orig.to_vec();
            m.remove(i);
            v.push((format!("xml-delete:{i}"), m));
        }
    }
    // element level: every child element of the root duplicated, removed,
    // and the first two swapped (an element twice in one message, an empty
    // message, another order)
    {
        let mut spans: Vec<(usize, usize)> = Vec::new();
        let mut depth = 0i32;
        let mut start = 0usize;
        let mut i = 0usize;
        while i < n {
            if orig[i] == b'<' {
                let Some(close) = orig[i..].iter().position(|b| *b == b'>').map(|p| i + p) else { break };
                let tag = &orig[i..=close];
                if tag.starts_with(b"<?") || tag.starts_with(b"<!") {
                    // declaration / comment
                } else if tag.starts_with(b"</") {
                    depth -= 1;
                    if depth == 1 {
                        spans.push((start, close + 1));
                    }
                } else {
                    if depth == 1 {
                        start = i;
                    }
                    if tag.ends_with(b"/>") {
                        if depth == 1 {
                            spans.push((start, close + 1));
                        }
                    } else {
                        depth += 1;
                    }
                }
                i = close + 1;
            } else {
                i += 1;
            }
        }
        for (k, (a, b)) in spans.iter().enumerate() {
            let mut dup = orig[..*b].to_vec();
            dup.extend_from_slice(&orig[*a..*b]);
            dup.extend_from_slice(&orig[*b..]);
            v.push((format!("xml-element-twice:{k}"), dup));
            let mut del = orig[..*a].to_vec();
            del.extend_from_slice(&orig[*b..]);
            v.push((format!("xml-element-removed:{k}"), del));
        }
        if spans.len() >= 2 {
            let (a0, b0) = spans[0];
            let (a1, b1) = spans[1];
            let mut sw = orig[..a0].to_vec();
            sw.extend_from_slice(&orig[a1..b1]);
            sw.extend_from_slice(&orig[b0..a1]);
            sw.extend_from_slice(&orig[a0..b0]);
            sw.extend_from_slice(&orig[b1..]);
            v.push(("xml-elements-swapped:0:1".into(), sw));
        }
    }
    // attribute value menus
    let text = String::from_utf8_lossy(orig).to_string();
    let hostile = [
        "", " ", "0", "-1", "4294967296", "18446744073709551616", "AS0", "AS4294967296", "10.0.0.0/33", "::/129", "10.0.0.0-9.0.0.0",
        "rsync://", "rsync://localhost/repo/alice/../bobby/x.cer", "rsync://localhost/repo/alice/%00", "https://x", "x", "&amp;", "&#0;", "&lt;",
        "zz", "0123", "ffffffffffffffffffffffffffffffffffffffffffffffffffffffffffffffff", "2026-13-45T99:99:99Z", "inherit",
        "AAAA", "====", "!!!!",
    ];
    let mut idx = 0;
    let bytes = text.as_bytes();
    let mut attr_no = 0;
    while let Some(p) = text[idx..].find("=\"") {
        let start = idx + p + 2;
        let Some(q) = text[start..].find('"') else { break };
        let end = start + q;
        for h in hostile {
            let mut m = bytes[..start].to_vec();
            m.extend_from_slice(h.as_bytes());
            m.extend_from_slice(&bytes[end..]);
            v.push((format!("xml-attr:{attr_no}:{h}"), m));
        }
        // a two-byte character in place of two ASCII characters, at every
        // position of the value (byte length preserved)
        if end - start <= 160 {
            for i in start..end.saturating_sub(1) {
                if bytes[i].is_ascii() && bytes[i + 1].is_ascii() {
                    let mut m = bytes[..i].to_vec();
                    m.extend_from_slice("\u{e9}".as_bytes());
                    m.extend_from_slice(&bytes[i + 2..]);
                    v.push((format!("xml-attr-wide:{attr_no}:{}", i - start), m));
                }
            }
        }
        // very long value
        let mut m = bytes[..start].to_vec();
        m.extend(std::iter::repeat(b'a').take(70_000));
        m.extend_from_slice(&bytes[end..]);
        v.push((format!("xml-attr:{attr_no}:long"), m));
        attr_no += 1;
        idx = end + 1;
    }
    // element text menus: between '>' and '<'
    let mut idx = 0;
    let mut el_no = 0;
    while let Some(p) = text[idx..].find('>') {
        let start = idx + p + 1;
        let Some(q) = text[start..].find('<') else { break };
        let end = start + q;
        if end > start {
            for h in ["", "!!!!", "AAAA", "A", "====", "\u{0}", "<![CDATA[x]]>", "&bogus;"] {
                let mut m = bytes[..start].to_vec();
                m.extend_from_slice(h.as_bytes());
                m.extend_from_slice(&bytes[end..]);
                v.push((format!("xml-text:{el_no}:{h}"), m));
            }
            el_no += 1;
        }
        idx = end;
    }
    v.push(("xml-empty".into(), vec![]));
    v.push(("xml-deep".into(), "<a>".repeat(5000).into_bytes()));
    v.push(("xml-bom".into(), [b"\xef\xbb\xbf".as_slice(), orig].concat()));
    v.push(("xml-doctype".into(), [b"<!DOCTYPE x [<!ENTITY a \"aaaaaaaaaa\"><!ENTITY b \"&a;&a;&a;&a;&a;&a;&a;&a;\">]>".as_slice(), orig].concat()));
    v
}

/// Wraps arbitrary content into a CMS validly signed by identity key `key`.
fn sign_raw(ctx: &c12::Ctx, key: usize, content: &[u8]) -> Bytes {
    let validity = Validity::new(Time::five_minutes_ago(), Time::five_minutes_from_now());
    let sm = SignedMessage::create(Bytes::copy_from_slice(content), validity, &key, &ctx.signer).unwrap();
    sm.to_captured().into_bytes()
}

//------------ JSON mutations ---------------------------------------------------

fn hostile_json_values() -> Vec<Value> {
    let mut v: Vec<Value> = [
        "", " ", "0", "-1", "4294967295", "4294967296", "18446744073709551616", "AS0", "AS4294967295", "AS4294967296", "AS-1", "as65000",
        "65000", "10.0.0.0/8", "10.0.0.0/33", "10.0.0.0/0", "0.0.0.0/0", "10.0.0.1/24", "10.0.0.0/24-8", "10.0.0.0/24-33", "10.0.0.0/24-",
        "10.0.0.0/-1", "256.0.0.0/8", "::/0", "::/129", "2001:db8::/32-129", "2001:db8::/32-0", "10.0.0.0-9.0.0.0", "10.0.0.0/8, 10.0.0.0/8",
        "AS1-AS0", "AS0-AS4294967295", "inherit", "rsync://", "rsync://localhost/repo/../x/", "rsync://localhost/repo/ca", "https://",
        "https://localhost:3000/rfc8181/x", "ta", "testbed", "../../etc/passwd", "a/b", "\u{0}", "é", "\u{202e}", "!!!!", "AAAA", "=",
        "10.0.0.0/24 => 65000", "2026-13-45T99:99:99Z",
        // handle-shaped values that are accepted as handles but make no
        // valid URI path segment, file name or key
        "a/", "/a", "a//b", "a\\b", "\\", "/", "//", "-", "_", ".", "..", "a b", "a.b", "A", "a/b/", "/a/b",
    ]
    .iter()
    .map(|s| json!(s))
    .collect();
    v.push(json!("a".repeat(255)));
    v.push(json!("a".repeat(256)));
    v.push(json!("a".repeat(300)));
    v.push(json!("A".repeat(100_000)));
    v.extend([
        Value::Null,
        json!(true),
        json!(0),
        json!(-1),
        json!(1.5),
        json!(255),
        json!(256),
        json!(4294967296u64),
        json!(18446744073709551615u64),
        json!([]),
        json!({}),
        json!([[]]),
        json!([null]),
        json!({"asn": "AS1", "ipv4": "10.0.0.0/8", "ipv6": ""}),
    ]);
    v
}

fn leaf_paths(v: &Value, path: Vec<String>, out: &mut Vec<Vec<String>>) {
    match v {
        Value::Object(m) => {
            out.push(path.clone());
            for (k, x) in m {
                let mut p = path.clone();
                p.push(k.clone());
                leaf_paths(x, p, out);
            }
        }
        Value::Array(a) => {
            out.push(path.clone());
            for (i, x) in a.iter().enumerate() {
                let mut p = path.clone();
                p.push(i.to_string());
                leaf_paths(x, p, out);
            }
        }
        _ => out.push(path),
    }
}

fn set_path(v: &mut Value, path: &[String], new: Option<Value>) {
    if path.is_empty() {
        if let Some(n) = new {
            *v = n;
        }
        return;
    }
    let (head, rest) = (&path[0], &path[1..]);
    match v {
        Value::Object(m) => {
            if rest.is_empty() {
                match new {
                    Some(n) => {
                        m.insert(head.clone(), n);
                    }
                    None => {
                        m.remove(head);
                    }
                }
            } else if let Some(x) = m.get_mut(head) {
                set_path(x, rest, new);
            }
        }
        Value::Array(a) => {
            let i: usize = head.parse().unwrap_or(0);
            if rest.is_empty() {
                match new {
                    Some(n) => {
                        if i < a.len() {
                            a[i] = n;
                        }
                    }
                    None => {
                        if i < a.len() {
                            a.remove(i);
                        }
                    }
                }
            } else if let Some(x) = a.get_mut(i) {
                set_path(x, rest, new);
            }
        }
        _ => {}
    }
}

fn json_mutations(orig: &Value, thorough: bool) -> Vec<(String, Vec<u8>)> {
    let mut v = Vec::new();
    let text = serde_json::to_vec(orig).unwrap();
    let step = if thorough || text.len() <= 600 { 1 } else { text.len() / 300 + 1 };
    let mut l = 0;
    while l < text.len() {
        v.push((format!("json-truncate:{l}"), text[..l].to_vec()));
        l += step;
    }
    let mut paths = Vec::new();
    leaf_paths(orig, vec![], &mut paths);
    let hostile = hostile_json_values();
    for p in &paths {
        for (hi, h) in hostile.iter().enumerate() {
            let mut m = orig.clone();
            set_path(&mut m, p, Some(h.clone()));
            v.push((format!("json-set:/{}:{hi}", p.join("/")), serde_json::to_vec(&m).unwrap()));
        }
        if !p.is_empty() {
            let mut m = orig.clone();
            set_path(&mut m, p, None);
            v.push((format!("json-del:/{}", p.join("/")), serde_json::to_vec(&m).unwrap()));
        }
    }
    // a multi-byte character at every position of every (short) string leaf:
    // parsers that slice by byte offsets meet a non-boundary
    for p in &paths {
        let mut cur = orig;
        let mut ok = true;
        for k in p {
            cur = match cur {
                Value::Object(m) => match m.get(k) {
                    Some(x) => x,
                    None => {
                        ok = false;
                        break;
                    }
                },
                Value::Array(a) => match a.get(k.parse::<usize>().unwrap_or(usize::MAX)) {
                    Some(x) => x,
                    None => {
                        ok = false;
                        break;
                    }
                },
                _ => {
                    ok = false;
                    break;
                }
            };
        }
        if !ok {
            continue;
        }
        let Value::String(text) = cur else { continue };
        let chars: Vec<char> = text.chars().collect();
        if chars.is_empty() || chars.len() > if thorough { 200 } else { 64 } {
            continue;
        }
        let wide: &[char] = if thorough { &['\u{e9}', '\u{20ac}', '\u{10348}'] } else { &['\u{e9}'] };
        // the same with the byte length preserved: n ASCII characters
        // replaced by one n-byte character
        for (wc, n) in [('\u{e9}', 2usize), ('\u{20ac}', 3), ('\u{10348}', 4)] {
            if !thorough && n != 2 {
                continue;
            }
            for i in 0..chars.len().saturating_sub(n - 1) {
                if !chars[i..i + n].iter().all(|c| c.is_ascii()) {
                    continue;
                }
                let mut c2: Vec<char> = chars[..i].to_vec();
                c2.push(wc);
                c2.extend_from_slice(&chars[i + n..]);
                let mut m = orig.clone();
                set_path(&mut m, p, Some(json!(c2.iter().collect::<String>())));
                v.push((format!("json-wide-samelen:/{}:{i}:{n}", p.join("/")), serde_json::to_vec(&m).unwrap()));
            }
        }
        for i in 0..chars.len() {
            for wc in wide {
                let mut c2 = chars.clone();
                c2[i] = *wc;
                let mut m = orig.clone();
                set_path(&mut m, p, Some(json!(c2.iter().collect::<String>())));
                v.push((format!("json-wide:/{}:{i}:{}", p.join("/"), *wc as u32), serde_json::to_vec(&m).unwrap()));
                if thorough {
                    let mut c3 = chars.clone();
                    c3.insert(i, *wc);
                    let mut m = orig.clone();
                    set_path(&mut m, p, Some(json!(c3.iter().collect::<String>())));
                    v.push((format!("json-wide-insert:/{}:{i}:{}", p.join("/"), *wc as u32), serde_json::to_vec(&m).unwrap()));
                }
            }
        }
    }
    // array duplication
    for p in &paths {
        let mut cur = orig;
        let mut ok = true;
        for k in p {
            cur = match cur {
                Value::Object(m) => match m.get(k) {
                    Some(x) => x,
                    None => {
                        ok = false;
                        break;
                    }
                },
                Value::Array(a) => match a.get(k.parse::<usize>().unwrap_or(usize::MAX)) {
                    Some(x) => x,
                    None => {
                        ok = false;
                        break;
                    }
                },
                _ => {
                    ok = false;
                    break;
                }
            };
        }
        if ok {
            if let Value::Array(a) = cur {
                if !a.is_empty() {
                    let mut dup = a.clone();
                    dup.extend(a.clone());
                    let mut m = orig.clone();
                    set_path(&mut m, p, Some(Value::Array(dup)));
                    v.push((format!("json-duparray:/{}", p.join("/")), serde_json::to_vec(&m).unwrap()));
                    let big: Vec<Value> = std::iter::repeat(a[0].clone()).take(300).collect();
                    let mut m = orig.clone();
                    set_path(&mut m, p, Some(Value::Array(big)));
                    v.push((format!("json-bigarray:/{}", p.join("/")), serde_json::to_vec(&m).unwrap()));
                }
            }
        }
    }
    if thorough {
        let subst = b"\"{}[],:\\\0\xff-e";
        for i in 0..text.len().min(1500) {
            for s in subst {
                if text[i] != *s {
                    let mut m = text.clone();
                    m[i] = *s;
                    v.push((format!("json-subst:{i}:{s:#x}"), m));
                }
            }
        }
    }
    for (name, b) in [
        ("json-empty", vec![]),
        ("json-null", b"null".to_vec()),
        ("json-deep", "[".repeat(100_000).into_bytes()),
        ("json-bignum", b"{\"handle\": 1e999999}".to_vec()),
        ("json-dupkey", b"{\"handle\":\"a\",\"handle\":\"b\"}".to_vec()),
        ("json-bom", [b"\xef\xbb\xbf".as_slice(), &text].concat()),
        ("json-invalid-utf8", b"{\"handle\":\"\xff\xfe\"}".to_vec()),
        ("json-surrogate", b"{\"handle\":\"\\ud800\"}".to_vec()),
        ("xml-instead", b"<repository_response/>".to_vec()),
    ] {
        v.push((name.to_string(), b));
    }
    v
}

fn segment_menu() -> Vec<&'static str> {
    vec![
        "", "%00", "%2F", "..", "%2e%2e", "a%2Fb", "%C3%A9", "%FF", "%", "%zz", "ta", "testbed", "%20", "-", "_", "AS65000", "65000",
        "4294967296", "-1", "0", "18446744073709551616", "1.5", "+1", "0x10",
        // integer edges: i32/u32/i64/u64 limits, and values that overflow only
        // after a unit conversion (x1000, x1000000)
        "2147483647", "2147483648", "4294967295", "9223372036854775807", "9223372036854775808", "-9223372036854775808", "18446744073709551615",
        "9223372036854776", "-9223372036854776", "9223372036855", "18446744073709552", "253402300800", "-62135596801",
        // existing objects in unusual states: a child without a certificate
        "nocert", "gkid", "skid", ";", "*", "%5C", "a%0Ab", "%E2%80%AE", "ca%00", "CA", "ca.", "ca%20",
        "aaaaaaaaaaaaaaaaaaaaaaaaaaaaaaaaaaaaaaaaaaaaaaaaaaaaaaaaaaaaaaaaaaaaaaaaaaaaaaaaaaaaaaaaaaaaaaaaaaaaaaaaaaaaaaaaaaaaaaaaaaaaaaaaaaaaaaaaaaaaaaaaaaaaaaaaaaaaaaaaaaaaaaaaaaaaaaaaaaaaaaaaaaaaaaaaaaaaaaaaaaaaaaaaaaaaaaaaaaaaaaaaaaaaaaaaaaaaaaaaaaaaaaaaaaaaaaaaaaaaaaaaaaaaaaaaaaaaaaaaaaaaaaaaaaaaaaaaaaaaaaaaaaaaaaaaaaaaaaaaaaaaaa",
    ]
}

//------------ fixtures ---------------------------------------------------------

/// World for the API part: TA -> parent -> ca (ROAs, ASPA, router key), other.
/// Returns the body fixtures by name.
pub fn build_api_fixture_pub() -> Result<BTreeMap<String, Value>, String> {
    build_api_fixture()
}

fn build_api_fixture() -> Result<BTreeMap<String, Value>, String> {
    use crate::ops::Op;
    let mut w = World::build_w2(WorldCfg::default(), res("AS65000-AS65010", "10.0.0.0/16", "2001:db8::/48")).map_err(|e| e.to_string())?;
    w.add_ca("other").map_err(|e| e.to_string())?;
    for op in [
        Op::Roa { ca: "ca".into(), add: vec!["10.0.0.0/24 => 65000".into(), "10.0.1.0/24-25 => 65001".into()], del: vec![] },
        Op::AspaSet { ca: "ca".into(), customer: 65000, providers: vec![65001, 65002] },
        Op::BgpsecAdd { ca: "ca".into(), asn: 65000, csr: 0 },
    ] {
        let o = w.apply_pumped(&op);
        if !o.ok {
            return Err(format!("fixture op {op:?}: {:?}", o.err));
        }
    }
    let signer = crate::cms::PoolSigner::new();
    let k = signer.new_key();
    let id = signer.id_cert(k);
    // children of "ca" in other states: one that holds a certificate, one
    // that holds a certificate and is suspended
    for (name, r) in [("gkid", res("AS65006", "10.0.6.0/24", "")), ("skid", res("AS65007", "10.0.7.0/24", ""))] {
        w.add_ca(name).map_err(|e| format!("fixture child {name}: {e}"))?;
        w.add_child_link("ca", name, r).map_err(|e| format!("fixture child {name}: {e}"))?;
        w.pump()?;
    }
    w.settle()?;
    {
        let o = w.apply_pumped(&Op::Suspend { parent: "ca".into(), child: "skid".into() });
        if !o.ok {
            return Err(format!("fixture: suspend skid: {:?}", o.err));
        }
    }
    // a child of "ca" that has not asked for a certificate yet
    {
        let k2 = signer.new_key();
        let req = krill::api::admin::AddChildRequest { handle: ca("nocert").convert(), resources: res("AS65008", "10.0.8.0/24", ""), id_cert: signer.id_cert(k2) };
        w.krill.ca_manager().ca_add_child(&ca("ca"), req, &w.actor, &w.krill).map_err(|e| format!("fixture child nocert: {e}"))?;
        let _ = w.pump();
    }
    let mut b: BTreeMap<String, Value> = BTreeMap::new();
    b.insert("ca_init".into(), json!({"handle": "newca"}));
    b.insert(
        "roa_updates".into(),
        json!({"added": [{"asn": 65002, "prefix": "10.0.2.0/24", "max_length": 24, "comment": "x"}], "removed": [{"asn": 65000, "prefix": "10.0.0.0/24", "max_length": 24}]}),
    );
    b.insert("aspa_updates".into(), json!({"add_or_replace": [{"customer": "AS65003", "providers": ["AS65001", "AS65002"]}], "remove": ["AS65000"]}));
    b.insert("aspa_providers".into(), json!({"added": ["AS65005"], "removed": ["AS65001"]}));
    let csr = crate::ops::router_csr(1);
    b.insert(
        "bgpsec_updates".into(),
        json!({
            "add": [{"asn": 65001, "csr": serde_json::to_value(&csr).map_err(|e| e.to_string())?}],
            "remove": [serde_json::to_value(krill::api::bgpsec::BgpSecAsnKey::from(&krill::api::bgpsec::BgpSecDefinition { asn: rpki::resources::Asn::from_u32(65000), csr: crate::ops::router_csr(0) })).map_err(|e| e.to_string())?],
        }),
    );
    let add = krill::api::admin::AddChildRequest { handle: ca("kid").convert(), resources: res("AS65009", "10.0.9.0/24", ""), id_cert: id.clone() };
    b.insert("child_add".into(), serde_json::to_value(&add).map_err(|e| e.to_string())?);
    b.insert("testbed_child".into(), serde_json::to_value(&add).map_err(|e| e.to_string())?);
    b.insert(
        "child_update".into(),
        serde_json::to_value(krill::api::admin::UpdateChildRequest::resources(res("AS65000", "10.0.0.0/24", ""))).map_err(|e| e.to_string())?,
    );
    let presp = w
        .krill
        .ca_manager()
        .ca_parent_response(&ca("parent"), ca("ca").convert(), w.krill.service_uri())
        .map_err(|e| e.to_string())?;
    b.insert("parent_add".into(), json!({"handle": "parent2", "response": serde_json::to_value(&presp).map_err(|e| e.to_string())?}));
    let rresp = w.krill.repo_manager().repository_response(&pub_h("ca"), &w.krill).map_err(|e| e.to_string())?;
    b.insert("repo_contact".into(), json!({"repository_response": serde_json::to_value(&rresp).map_err(|e| e.to_string())?}));
    let preq = rpki::ca::idexchange::PublisherRequest::new(
        rpki::ca::publication::Base64::from_content(id.to_captured().as_slice()),
        pub_h("newpub"),
        None,
    );
    b.insert("publisher_request".into(), serde_json::to_value(&preq).map_err(|e| e.to_string())?);
    b.insert("delete_criteria".into(), json!({"base_uri": "rsync://localhost/repo/nobody/"}));
    b.insert("pubd_init".into(), json!({"rrdp_base_uri": "https://localhost:3000/rrdp/", "rsync_jail": "rsync://localhost/repo/"}));
    b.insert("resource_set".into(), json!({"asn": "AS65000", "ipv4": "10.0.0.0/24", "ipv6": ""}));
    b.insert(
        "bulk_import".into(),
        json!({"cas": [{"handle": "imp", "parents": [{"handle": "testbed", "resources": {"asn": "AS1", "ipv4": "", "ipv6": ""}}], "roas": []}]}),
    );
    b.insert("signer_info".into(), json!({"id": {"public_key": "AAAA", "base64": "AAAA", "hash": "00"}, "objects": {}, "ta_cert_details": {}}));
    b.insert("signer_response".into(), json!({"signed": {}, "response": {}}));
    w.pump()?;
    drop(w);
    Ok(b)
}

#[derive(Clone, Debug, serde::Serialize, serde::Deserialize)]
struct Case {
    part: String,
    target: String,
    mutation: String,
}

struct Hit {
    case: Case,
    kind: String,
    detail: String,
    call: Value,
}

pub fn run(tier: &Tier, args: &[String]) -> i32 {
    let mut out = Outcome::new("C16", tier, "model_checking");
    out.assumptions = vec![
        "inputs are the listed structured mutations (every child element of an XML message twice / removed / the first two swapped, every truncation, every single-byte substitution from a menu / deletion / duplication, every attribute, element and JSON leaf replaced by every value of a hostile-value menu, every path parameter replaced by every segment of a menu, all byte strings up to length 1 (quick) / 2 (thorough)) of valid messages; 'every byte string' is not enumerable".into(),
        "the harness profile mirrors the release profile's overflow-checks=off; a panic on any thread (recorded by the panic hook) counts, since release builds abort".into(),
        "the API is reached through the daemon's own hyper service over an in-memory pipe; TLS and the socket layer are not exercised".into(),
    ];
    let only = crate::report::arg_value(args, "--part");
    let root = crate::e1run::scratch_root();
    let _guard = crate::e1run::ScratchGuard(root.clone());
    let _ = std::fs::remove_dir_all(&root);
    std::fs::create_dir_all(&root).unwrap();
    let procs = 16usize;
    let thorough = tier.thorough;
    let mut counts: BTreeMap<String, u64> = BTreeMap::new();
    let mut outcomes: BTreeMap<String, u64> = BTreeMap::new();
    let mut hits: Vec<Hit> = Vec::new();

    // ---- parts A and B: protocol entry points on a World
    if only.as_deref().map(|p| p == "cms").unwrap_or(true) {
        let results = workers(&root, "cms", procs, &mut out, |k| {
            let mut results = Vec::new();
            let (w, ctx) = c12::build_state("issued").expect("state");
            let subjects: Vec<(&str, Req)> = vec![
                ("up-list", Req::Up { key: "A".into(), sender: "alice".into(), recipient: "parent".into(), target: "parent".into(), kind: "list".into() }),
                ("up-issue", Req::Up { key: "A".into(), sender: "alice".into(), recipient: "parent".into(), target: "parent".into(), kind: "issue".into() }),
                ("up-revoke", Req::Up { key: "A".into(), sender: "alice".into(), recipient: "parent".into(), target: "parent".into(), kind: "revoke_own".into() }),
                ("pub-list", Req::Pub { key: "A".into(), path: "alice".into(), kind: "list".into() }),
                ("pub-update", Req::Pub { key: "A".into(), path: "alice".into(), kind: "update_own".into() }),
                ("pub-withdraw", Req::Pub { key: "A".into(), path: "alice".into(), kind: "withdraw_own".into() }),
            ];
            let mut idx = 0usize;
            let mut n = 0u64;
            let mut baseline = disk_listing();
            let mut oc: BTreeMap<String, u64> = BTreeMap::new();
            let mut send = |part: &str, target: &str, r: &Req, name: String, bytes: Vec<u8>, results: &mut Vec<Value>| {
                n += 1;
                let _ = crate::take_panics();
                let res = std::panic::catch_unwind(std::panic::AssertUnwindSafe(|| c12::send(&w, r, Bytes::from(bytes))));
                let panics = crate::take_panics();
                let case = Case { part: part.into(), target: target.into(), mutation: name };
                match res {
                    Err(p) => results.push(json!({"case": case, "kind": "panic", "detail": crate::e1::panic_message(&p)})),
                    Ok(r) => {
                        if !panics.is_empty() {
                            results.push(json!({"case": case, "kind": "panic", "detail": panics.join(" | ")}));
                        }
                        match r {
                            Ok(_) => {
                                *oc.entry(format!("{part}: answered")).or_default() += 1;
                                // an answered revocation / update has taken
                                // effect: put the key / object back so that
                                // the following mutations of the same message
                                // meet the same state
                                let restore = match target {
                                    "up-revoke" => Some(Req::Up { key: "A".into(), sender: "alice".into(), recipient: "parent".into(), target: "parent".into(), kind: "issue".into() }),
                                    "pub-update" => Some(Req::Pub { key: "A".into(), path: "alice".into(), kind: "restore_own".into() }),
                                    "pub-withdraw" => Some(Req::Pub { key: "A".into(), path: "alice".into(), kind: "publish_own".into() }),
                                    _ => None,
                                };
                                if let Some(rr) = restore
                                    && let Ok(bytes) = c12::message(&ctx, &rr)
                                {
                                    let ok = std::panic::catch_unwind(std::panic::AssertUnwindSafe(|| c12::send(&w, &rr, bytes))).map(|r| r.is_ok()).unwrap_or(false);
                                    *oc.entry(format!("{part}: restored {}", if ok { "ok" } else { "not needed / refused" })).or_default() += 1;
                                }
                                baseline = disk_listing();
                            }
                            Err(_) => {
                                *oc.entry(format!("{part}: refused")).or_default() += 1;
                                let now = disk_listing();
                                if now != baseline {
                                    if let Some(d) = state_change(&baseline, &now) {
                                        results.push(json!({"case": case, "kind": "error-but-changed", "detail": d}));
                                    }
                                    baseline = now;
                                }
                            }
                        }
                    }
                }
            };
            for (tname, r) in &subjects {
                let orig = c12::message(&ctx, r).expect("message").to_vec();
                // A: raw CMS mutations
                for (name, m) in byte_mutations(&orig, thorough) {
                    idx += 1;
                    if idx % procs == k {
                        send("cms-bytes", tname, r, name, m, &mut results);
                    }
                }
                // B: hostile content, validly signed
                let xml: Vec<u8> = match r {
                    Req::Pub { .. } => rpki::ca::publication::PublicationCms::decode(&orig).unwrap().into_message().to_xml_bytes().to_vec(),
                    _ => rpki::ca::provisioning::ProvisioningCms::decode(&orig).unwrap().into_message().to_xml_bytes().to_vec(),
                };
                for (name, content) in xml_mutations(&xml, thorough) {
                    idx += 1;
                    if idx % procs == k {
                        let signed = sign_raw(&ctx, ctx.id["A"], &content).to_vec();
                        send("cms-signed-content", tname, r, name, signed, &mut results);
                    }
                }
            }
            for (name, m) in tiny_inputs(thorough) {
                for (tname, r) in [&subjects[0], &subjects[3]] {
                    idx += 1;
                    if idx % procs == k {
                        send("cms-tiny", tname, r, name.clone(), m.clone(), &mut results);
                    }
                }
            }
            // still fine?
            // (alice and bobby are remote children without a publication
            // point of their own; what concerns them is not judged here)
            let _ = w.pump();
            if let Err(e) = crate::rp::full_check(&w) {
                let e: Vec<String> = e.into_iter().filter(|l| !l.contains("/alice/") && !l.contains("/bobby/")).collect();
                if !e.is_empty() {
                    results.push(json!({"case": Case{part: "cms".into(), target: "-".into(), mutation: "-".into()}, "kind": "repository-broken", "detail": format!("{e:?}")}));
                }
            }
            results.push(json!({"count": n, "outcomes": oc}));
            results
        });
        collect(results, &mut counts, &mut outcomes, &mut hits, "cms");
    }

    // ---- part C: the HTTP API
    if only.as_deref().map(|p| p == "api").unwrap_or(true) {
        let results = workers(&root, "api", procs, &mut out, |k| {
            let mut results = Vec::new();
            let bodies = build_api_fixture().expect("fixture");
            let config = crate::world::make_config(&WorldCfg::default());
            let mut daemon = Daemon::open(config.clone(), false).expect("daemon");
            let pristine = std::path::PathBuf::from(format!("../pristine-api-{k}"));
            let _ = std::fs::remove_dir_all(&pristine);
            copy_dir(std::path::Path::new("."), &pristine).expect("pristine copy");
            // sanity: the daemon serves the fixture
            let r = daemon.get("/api/v1/cas/ca/routes");
            if r.status != 200 {
                results.push(json!({"machinery": format!("fixture not served: {} {:?} {}", r.status, r.broken, r.text())}));
                return results;
            }
            let mut idx = 0usize;
            let mut n = 0u64;
            let mut baseline = disk_listing();
            let mut oc: BTreeMap<String, u64> = BTreeMap::new();
            let mut cases: Vec<(Case, Call)> = Vec::new();
            let std_fill = |p: &str| fill(p, "ca", "kid", "parent", "AS65000", "ca", "1");
            for route in ROUTES {
                let target = format!("{} {}", route.method, route.path);
                // body mutations
                if let Some(bname) = route.body {
                    if bname == "raw" {
                        continue; // parts A/B
                    }
                    let valid = bodies.get(bname).cloned().unwrap_or(json!({}));
                    for (name, body) in json_mutations(&valid, thorough) {
                        cases.push((
                            Case { part: "api-body".into(), target: target.clone(), mutation: name },
                            Call { method: route.method.into(), path: std_fill(route.path), bearer: Some("secret".into()), body, unix_user: None, authorization: None },
                        ));
                    }
                    // cross-wired: every other fixture body
                    for (other, v) in &bodies {
                        if other != bname {
                            cases.push((
                                Case { part: "api-body".into(), target: target.clone(), mutation: format!("cross:{other}") },
                                Call { method: route.method.into(), path: std_fill(route.path), bearer: Some("secret".into()), body: serde_json::to_vec(v).unwrap(), unix_user: None, authorization: None },
                            ));
                        }
                    }
                }
                // path parameter menus
                for (pi, param) in ["{ca}", "{child}", "{parent}", "{customer}", "{publisher}", "{n}"].iter().enumerate() {
                    if !route.path.contains(param) {
                        continue;
                    }
                    let occurrences = route.path.matches(param).count();
                    for seg in segment_menu() {
                        let mut vals = ["ca", "kid", "parent", "AS65000", "ca", "1"];
                        vals[pi] = seg;
                        let mut paths = vec![(format!("{param}={seg}"), fill(route.path, vals[0], vals[1], vals[2], vals[3], vals[4], vals[5]))];
                        if occurrences > 1 {
                            // also each occurrence on its own, the others valid
                            for pos in 0..occurrences {
                                let mut tpl = String::new();
                                for (i, part) in route.path.split(param).enumerate() {
                                    if i > 0 {
                                        tpl.push_str(if i - 1 == pos { seg } else { "1" });
                                    }
                                    tpl.push_str(part);
                                }
                                paths.push((format!("{param}#{pos}={seg}"), fill(&tpl, "ca", "kid", "parent", "AS65000", "ca", "1")));
                            }
                        }
                        for (mutation, path) in paths {
                            let body = route.body.and_then(|b| bodies.get(b)).map(|v| serde_json::to_vec(v).unwrap()).unwrap_or_default();
                            cases.push((
                                Case { part: "api-path".into(), target: target.clone(), mutation },
                                Call { method: route.method.into(), path, bearer: Some("secret".into()), body, unix_user: None, authorization: None },
                            ));
                        }
                    }
                }
            }
            // raw protocol endpoints over HTTP (body limits, path handling)
            for (path, name) in [("/rfc6492/parent", "rfc6492"), ("/rfc8181/ca", "rfc8181"), ("/rfc6492/ta", "rfc6492-ta"), ("/rfc6492/nobody", "rfc6492-unknown")] {
                for (mname, m) in tiny_inputs(false) {
                    cases.push((
                        Case { part: "api-raw".into(), target: name.into(), mutation: mname },
                        Call { method: "POST".into(), path: path.into(), bearer: None, body: m, unix_user: None, authorization: None },
                    ));
                }
                cases.push((
                    Case { part: "api-raw".into(), target: name.into(), mutation: "oversize".into() },
                    Call { method: "POST".into(), path: path.into(), bearer: None, body: vec![0x30; 120 * 1024 * 1024 / 16], unix_user: None, authorization: None },
                ));
            }
            // whole-path menu
            for p in ["//", "/api", "/api/", "/api/v1", "/api/v1/", "/api/v2/cas", "/api/v1/cas/", "/api/v1/cas//routes", "/api/v1/cas/ca/routes/", "/api/v1/cas/ca/routes/analysis", "/%", "/%00", "/..", "/../etc/passwd", "/rrdp/../data/cas/ca/info.json", "/rrdp/%2e%2e/%2e%2e/krill.conf", "/rrdp/", "/rrdp/x/../../data", "/ta/../api/v1/cas", "/assets/../x", "/ui/../../x", "/api/v1/cas/ca/history/commands/-1/-1/-1/-1", "/api/v1/cas/ca/history/commands/18446744073709551616", "/api/v1/cas/ca/history/commands/1/2/3/4/5", "/api/v1/pubd/stale/-1", "/api/v1/pubd/stale/9223372036854775808", "/api/v1/cas/ca/history/details/18446744073709551615"] {
                for method in ["GET", "POST", "DELETE", "PUT", "PATCH", "OPTIONS", "HEAD"] {
                    cases.push((
                        Case { part: "api-path".into(), target: "whole-path".into(), mutation: format!("{method} {p}") },
                        Call { method: method.into(), path: p.into(), bearer: Some("secret".into()), body: vec![], unix_user: None, authorization: None },
                    ));
                }
            }
            for (case, call) in cases {
                idx += 1;
                if idx % procs != k {
                    continue;
                }
                n += 1;
                let _ = crate::take_panics();
                let _ = std::fs::write(format!("../cur-api{k}.json"), serde_json::to_vec(&json!({"case": case, "method": call.method, "path": call.path, "body": String::from_utf8_lossy(&call.body[..call.body.len().min(2000)])})).unwrap());
                let reply = daemon.call(&call);
                let panics = crate::take_panics();
                let mut reopen = false;
                if !panics.is_empty() {
                    results.push(json!({"case": case, "kind": "panic", "detail": panics.join(" | "), "call": {"method": call.method, "path": call.path, "body": String::from_utf8_lossy(&call.body[..call.body.len().min(4000)])}}));
                    reopen = true;
                } else if let Some(b) = &reply.broken {
                    if b.starts_with("timeout") {
                        results.push(json!({"case": case, "kind": "hang", "detail": b, "call": {"method": call.method, "path": call.path, "body": String::from_utf8_lossy(&call.body[..call.body.len().min(4000)])}}));
                        reopen = true;
                    } else if !b.starts_with("request:") {
                        // the connection was closed without a response
                        *oc.entry("no response (connection closed)".into()).or_default() += 1;
                    } else {
                        *oc.entry("not sendable (invalid URI for the client)".into()).or_default() += 1;
                    }
                }
                *oc.entry(format!("{}: {}", case.part, reply.status)).or_default() += 1;
                if reply.status >= 200 && reply.status < 300 {
                    // an accepted request that changed something: put the
                    // fixture back, so that every case meets the same state
                    // (a deleted child or CA would make the rest vacuous)
                    if disk_listing() != baseline {
                        drop(daemon);
                        for d in ["data", "repo"] {
                            let _ = std::fs::remove_dir_all(d);
                            copy_dir(&pristine.join(d), std::path::Path::new(d)).expect("restore");
                        }
                        daemon = Daemon::open(config.clone(), false).expect("daemon reopen");
                        *oc.entry("fixture restored".into()).or_default() += 1;
                        baseline = disk_listing();
                        continue;
                    }
                } else {
                    let now = disk_listing();
                    if now != baseline {
                        if let Some(d) = state_change(&baseline, &now) {
                            results.push(json!({"case": case, "kind": "error-but-changed", "detail": format!("status {} but {d}", reply.status), "call": {"method": call.method, "path": call.path, "body": String::from_utf8_lossy(&call.body[..call.body.len().min(4000)])}}));
                        }
                        baseline = now;
                    }
                }
                if reopen {
                    // the worker thread that panicked is gone: start over
                    // (dropping joins the remaining pool threads)
                    drop(daemon);
                    daemon = Daemon::open(config.clone(), false).expect("daemon reopen");
                    baseline = disk_listing();
                }
            }
            // the daemon still answers, and the content is still valid
            let r = daemon.get("/api/v1/cas");
            if r.status != 200 {
                results.push(json!({"case": Case{part: "api".into(), target: "-".into(), mutation: "-".into()}, "kind": "daemon-dead", "detail": format!("{} {:?}", r.status, r.broken)}));
            }
            std::mem::forget(daemon);
            // (no relying-party check here: the sweep contains valid
            // destructive admin requests, e.g. clearing the repository)
            match World::reopen(WorldCfg::default()).map_err(|e| e.to_string()) {
                Ok(w) => {
                    if let Err(e) = w.krill.ca_manager().ca_handles() {
                        results.push(json!({"case": Case{part: "api".into(), target: "-".into(), mutation: "-".into()}, "kind": "reload-failed", "detail": e.to_string()}));
                    }
                }
                Err(e) => results.push(json!({"case": Case{part: "api".into(), target: "-".into(), mutation: "-".into()}, "kind": "reload-failed", "detail": e})),
            }
            results.push(json!({"count": n, "outcomes": oc}));
            results
        });
        collect(results, &mut counts, &mut outcomes, &mut hits, "api");
    }

    // group findings: one per (kind, part, target, mutation class)
    let mut seen = std::collections::BTreeSet::new();
    for h in hits {
        let mclass: String = h.case.mutation.split(':').next().unwrap_or("").to_string();
        let key = format!("{}|{}|{}|{}|{}", h.kind, h.case.part, h.case.target, mclass, crate::e1::normalize(&h.detail));
        if !seen.insert(key.clone()) {
            continue;
        }
        out.findings.push(Finding {
            signature: format!("{}|{} @ part={} target={} mutation={}", h.kind, crate::e1::normalize(&h.detail), h.case.part, h.case.target, h.case.mutation),
            text: format!("{}: {}; part={} target={} mutation={} call={}", h.kind, h.detail, h.case.part, h.case.target, h.case.mutation, h.call.to_string().chars().take(600).collect::<String>()),
            replay: json!({"case": h.case, "kind": h.kind, "detail": h.detail, "call": h.call}),
        });
    }
    let total: u64 = counts.values().sum();
    out.coverage = json!({
        "evaluations": total,
        "distinct_nontrivial": total,
        "states": 2,
        "transitions": total,
        "traces_validated_against_impl": total,
        "rule": "every structured mutation (see assumptions) of 5 valid CMS messages at the provisioning and publication entry points, of their XML content re-signed with the registered key, and of the valid JSON body of every body-reading API route (plus every other route's body cross-wired) and every path parameter of every route; each sent to the real code; oracle: no panic on any thread, no hang, an error outcome leaves the stored state unchanged, the daemon still answers and the repository is still relying-party valid at the end",
        "per_part": counts,
        "outcomes": outcomes,
        "routes": ROUTES.len(),
        "exhaustive": true,
    });
    out.finish()
}

fn collect(results: Vec<Value>, counts: &mut BTreeMap<String, u64>, outcomes: &mut BTreeMap<String, u64>, hits: &mut Vec<Hit>, part: &str) {
    for r in results {
        if let Some(n) = r.get("count") {
            *counts.entry(part.to_string()).or_default() += n.as_u64().unwrap_or(0);
            if let Some(o) = r["outcomes"].as_object() {
                for (k, v) in o {
                    *outcomes.entry(k.clone()).or_default() += v.as_u64().unwrap_or(0);
                }
            }
            continue;
        }
        let Ok(case) = serde_json::from_value::<Case>(r["case"].clone()) else { continue };
        let detail = r["detail"].as_str().unwrap_or("").replace('\n', " ");
        hits.push(Hit { case, kind: r["kind"].as_str().unwrap_or("").to_string(), detail, call: r.get("call").cloned().unwrap_or(Value::Null) });
    }
}

fn workers(root: &std::path::Path, tag: &str, procs: usize, out: &mut Outcome, f: impl Fn(usize) -> Vec<Value>) -> Vec<Value> {
    use std::io::Write;
    let mut pids = Vec::new();
    for k in 0..procs {
        let dir = root.join(format!("{tag}k{k}"));
        std::fs::create_dir_all(&dir).unwrap();
        let outf = root.join(format!("{tag}k{k}.json"));
        let _ = std::io::stdout().flush();
        let pid = unsafe { libc::fork() };
        if pid == 0 {
            std::env::set_current_dir(&dir).unwrap();
            let r = std::panic::catch_unwind(std::panic::AssertUnwindSafe(|| f(k)));
            let results = match r {
                Ok(v) => v,
                Err(p) => vec![json!({"machinery": format!("worker panicked: {}", crate::e1::panic_message(&p))})],
            };
            let _ = std::fs::write(&outf, serde_json::to_vec(&results).unwrap());
            unsafe { libc::_exit(0) };
        }
        pids.push((pid, outf, dir));
    }
    let mut all = Vec::new();
    for (pid, outf, dir) in pids {
        let mut st = 0;
        unsafe { libc::waitpid(pid, &mut st, 0) };
        let _ = std::fs::remove_dir_all(&dir);
        let Ok(bytes) = std::fs::read(&outf) else {
            let cur_path = root.join(format!("cur-{}.json", outf.file_stem().and_then(|s| s.to_str()).unwrap_or("").replace("k", "")));
            if let Some(v) = std::fs::read(&cur_path).ok().and_then(|b| serde_json::from_slice::<Value>(&b).ok()) {
                // the process running the daemon code died: that is the
                // property's failure, not the machinery's
                all.push(json!({"case": v["case"], "kind": "process-died", "detail": format!("the process died (wait status {st:#x}) while handling this request"), "call": {"method": v["method"], "path": v["path"], "body": v["body"]}}));
                continue;
            }
            let cur = std::fs::read_to_string(root.join(format!("cur-{}.json", outf.file_stem().and_then(|s| s.to_str()).unwrap_or("").replace("k", "")))).unwrap_or_default();
            out.machinery_errors.push(format!("{tag}: worker produced no result (status {st:#x}); last case of some worker: {cur}"));
            continue;
        };
        let results: Vec<Value> = serde_json::from_slice(&bytes).unwrap_or_default();
        for r in results {
            if let Some(m) = r.get("machinery") {
                out.machinery_errors.push(format!("{tag}: {m}"));
            } else {
                all.push(r);
            }
        }
    }
    all
}
