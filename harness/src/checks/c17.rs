//! C17 — ROA analysis agrees with RFC 6811 origin validation.
//! Bounded-exhaustive differential check of the real analyser (real RISwhois
//! parser and prefix tree via hook H4) against a brute-force validator.

use std::collections::BTreeSet;
use std::sync::atomic::{AtomicU64, Ordering};
use std::sync::{Arc, Mutex};

use krill::api::bgp::{BgpAnalysisState as St};
use krill::api::roa::{ConfiguredRoa, RoaConfiguration, RoaPayload};
use krill::server::bgp::BgpAnalyser;
use rpki::repository::resources::ResourceSet;
use serde_json::json;

use crate::report::{Finding, Outcome, Tier};

#[derive(Clone, Copy, Debug, PartialEq, Eq, PartialOrd, Ord, Hash)]
struct Pfx {
    v6: bool,
    /// address as 128-bit integer, left aligned in its family width
    addr: u128,
    len: u8,
}

impl Pfx {
    fn width(&self) -> u8 {
        if self.v6 { 128 } else { 32 }
    }
    fn covers(&self, o: &Pfx) -> bool {
        if self.v6 != o.v6 || self.len > o.len {
            return false;
        }
        if self.len == 0 {
            return true;
        }
        let shift = self.width() - self.len;
        (self.addr >> shift) == (o.addr >> shift)
    }
    fn text(&self) -> String {
        if self.v6 {
            let a = std::net::Ipv6Addr::from(self.addr);
            format!("{a}/{}", self.len)
        } else {
            let a = std::net::Ipv4Addr::from(self.addr as u32);
            format!("{a}/{}", self.len)
        }
    }
}

fn v4(a: [u8; 4], len: u8) -> Pfx {
    Pfx { v6: false, addr: u32::from_be_bytes(a) as u128, len }
}

fn v6(s: &str, len: u8) -> Pfx {
    let a: std::net::Ipv6Addr = s.parse().unwrap();
    Pfx { v6: true, addr: u128::from(a), len }
}

#[derive(Clone, Copy, Debug, PartialEq, Eq, PartialOrd, Ord, Hash)]
struct Roa {
    p: Pfx,
    max: u8,
    asn: u32,
}

#[derive(Clone, Copy, Debug, PartialEq, Eq, PartialOrd, Ord, Hash)]
struct Ann {
    p: Pfx,
    asn: u32,
}

#[derive(Clone, Copy, Debug, PartialEq, Eq)]
enum Verdict {
    Valid,
    Invalid,
    NotFound,
}

/// RFC 6811 by brute force.
fn rov(roas: &[Roa], a: &Ann) -> Verdict {
    let covering: Vec<&Roa> = roas.iter().filter(|r| r.p.covers(&a.p)).collect();
    if covering.is_empty() {
        return Verdict::NotFound;
    }
    if covering.iter().any(|r| r.asn == a.asn && r.asn != 0 && a.p.len <= r.max) {
        Verdict::Valid
    } else {
        Verdict::Invalid
    }
}

fn payload(r: &Roa) -> RoaPayload {
    serde_json::from_value(json!({"asn": r.asn, "prefix": r.p.text(), "max_length": r.max})).unwrap()
}

fn configured(r: &Roa) -> ConfiguredRoa {
    ConfiguredRoa {
        roa_configuration: RoaConfiguration { payload: payload(r), comment: None },
        roa_objects: vec![],
    }
}

fn ris_text(anns: &[Ann], v6: bool) -> String {
    let mut s = String::from("% test data\n");
    for a in anns.iter().filter(|a| a.p.v6 == v6) {
        s.push_str(&format!("{}\t{}\t100\n", a.asn, a.p.text()));
    }
    s
}

fn ann_of(a: &krill::api::bgp::Announcement) -> (String, u32) {
    let v = serde_json::to_value(a).unwrap();
    (
        v["prefix"].as_str().unwrap_or("").to_string(),
        v["asn"].as_u64().unwrap_or(0) as u32,
    )
}

fn subsets<T: Clone>(items: &[T], max: usize) -> Vec<Vec<T>> {
    let mut res = vec![vec![]];
    let n = items.len();
    for i in 0..n {
        res.push(vec![items[i].clone()]);
        if max >= 2 {
            for j in (i + 1)..n {
                res.push(vec![items[i].clone(), items[j].clone()]);
                if max >= 3 {
                    for k in (j + 1)..n {
                        res.push(vec![items[i].clone(), items[j].clone(), items[k].clone()]);
                    }
                }
            }
        }
    }
    res
}

struct Case<'a> {
    roas: &'a [Roa],
    anns: &'a [Ann],
    held: &'a ResourceSet,
    held_name: &'a str,
    limit: Option<&'a ResourceSet>,
    dup_roa: bool,
    dup_ann: bool,
    /// hand the ROAs to the analyser in reverse order
    rev_roa: bool,
}

/// One differential comparison. Returns a violation text.
fn compare(analyser: &BgpAnalyser, c: &Case) -> Option<(String, String)> {
    let mut ann_lines: Vec<Ann> = c.anns.to_vec();
    if c.dup_ann {
        if let Some(a) = c.anns.first() {
            ann_lines.push(*a);
        }
    }
    let v4t = ris_text(&ann_lines, false);
    let v6t = ris_text(&ann_lines, true);
    if let Err(e) = analyser.verif_load(&v4t, &v6t) {
        return Some(("load".into(), format!("cannot load announcements: {e}")));
    }
    let mut conf: Vec<ConfiguredRoa> = c.roas.iter().map(configured).collect();
    if c.dup_roa {
        if let Some(r) = c.roas.first() {
            conf.push(configured(r));
        }
    }
    if c.rev_roa {
        conf.reverse();
    }
    let report = analyser.analyse(&conf, c.held, c.limit.cloned());
    // ROAs that are held take part in validation
    let held_roas: Vec<Roa> = c
        .roas
        .iter()
        .filter(|r| {
            let set = if r.p.v6 {
                ResourceSet::from_strs("", "", &r.p.text())
            } else {
                ResourceSet::from_strs("", &r.p.text(), "")
            };
            set.map(|s| c.held.contains(&s)).unwrap_or(false)
        })
        .cloned()
        .collect();
    // announcements within the CA's resources (and the scope restriction)
    let in_scope = |a: &Ann| {
        let set = if a.p.v6 {
            ResourceSet::from_strs("", "", &a.p.text())
        } else {
            ResourceSet::from_strs("", &a.p.text(), "")
        };
        set.map(|s| c.held.contains(&s) && c.limit.map(|l| l.contains(&s)).unwrap_or(true)).unwrap_or(false)
    };
    let in_held = |a: &Ann| {
        let set = if a.p.v6 {
            ResourceSet::from_strs("", "", &a.p.text())
        } else {
            ResourceSet::from_strs("", &a.p.text(), "")
        };
        set.map(|s| c.held.contains(&s)).unwrap_or(false)
    };
    let roa_in_limit = |r: &Roa| {
        let set = if r.p.v6 {
            ResourceSet::from_strs("", "", &r.p.text())
        } else {
            ResourceSet::from_strs("", &r.p.text(), "")
        };
        set.map(|s| c.limit.map(|l| l.contains(&s)).unwrap_or(true)).unwrap_or(false)
    };
    let mut reported: std::collections::BTreeMap<(String, u32), St> = Default::default();
    for e in report.entries() {
        match e.state() {
            St::AnnouncementValid
            | St::AnnouncementInvalidLength
            | St::AnnouncementInvalidAsn
            | St::AnnouncementDisallowed
            | St::AnnouncementNotFound => {
                let k = ann_of(&e.announcement());
                // a RISwhois line occurring twice is reported twice; the
                // verdicts have to agree
                if let Some(prev) = reported.insert(k.clone(), e.state()) {
                    if prev != e.state() {
                        return Some(("inconsistent".into(), format!("announcement {k:?} reported as {prev:?} and as {:?}", e.state())));
                    }
                }
            }
            _ => {}
        }
    }
    let mut distinct: BTreeSet<Ann> = BTreeSet::new();
    for a in c.anns {
        distinct.insert(*a);
    }
    for a in &distinct {
        let key = (a.p.text(), a.asn);
        let got = reported.get(&key);
        if !in_scope(a) {
            // The property speaks about announcements within the CA's
            // resources (and the requested scope); nothing is demanded for
            // others, except that a verdict, if one is given for a held
            // prefix, is the right one.
            if got.is_none() || !in_held(a) {
                continue;
            }
        }
        let want = rov(&held_roas, a);
        let got_v = match got {
            None => {
                return Some((
                    "missing".into(),
                    format!("announcement {} AS{} within the held resources is not reported (expected {want:?})", a.p.text(), a.asn),
                ));
            }
            Some(St::AnnouncementValid) => Verdict::Valid,
            Some(St::AnnouncementNotFound) => Verdict::NotFound,
            Some(_) => Verdict::Invalid,
        };
        if got_v != want {
            return Some((
                "verdict".into(),
                format!("announcement {} AS{}: analyser says {:?}, RFC 6811 says {want:?}", a.p.text(), a.asn, got.unwrap()),
            ));
        }
    }
    for k in reported.keys() {
        if !distinct.iter().any(|a| a.p.text() == k.0 && a.asn == k.1) {
            return Some(("extra".into(), format!("analyser reports announcement {k:?} that was not loaded")));
        }
    }
    // per-ROA attribution
    let anns_in_scope: Vec<Ann> = distinct.iter().filter(|a| reported.contains_key(&(a.p.text(), a.asn)) && in_held(a)).cloned().collect();
    for e in report.entries() {
        let st = e.state();
        if !matches!(
            st,
            St::RoaSeen | St::RoaDisallowing | St::RoaTooPermissive | St::RoaRedundant | St::RoaAs0 | St::RoaUnseen
        ) {
            continue;
        }
        let pl = e.configured_roa().roa_configuration.payload;
        let Some(r) = held_roas.iter().find(|r| payload(r) == pl && roa_in_limit(r)) else {
            return Some(("roa-unknown".into(), format!("analyser reports ROA {pl} which is not a held configured ROA")));
        };
        let want_auth: BTreeSet<(String, u32)> = anns_in_scope
            .iter()
            .filter(|a| r.p.covers(&a.p) && a.asn == r.asn && r.asn != 0 && a.p.len <= r.max)
            .map(|a| (a.p.text(), a.asn))
            .collect();
        let want_dis: BTreeSet<(String, u32)> = anns_in_scope
            .iter()
            .filter(|a| r.p.covers(&a.p) && rov(&held_roas, a) == Verdict::Invalid)
            .map(|a| (a.p.text(), a.asn))
            .collect();
        let got_auth: BTreeSet<(String, u32)> = e.authorizes().iter().map(ann_of).collect();
        let got_dis: BTreeSet<(String, u32)> = e.disallows().iter().map(ann_of).collect();
        if got_auth != want_auth {
            return Some((
                "attribution".into(),
                format!("ROA {pl} ({st:?}): authorizes {got_auth:?}, validation attributes {want_auth:?}"),
            ));
        }
        if got_dis != want_dis {
            return Some((
                "attribution".into(),
                format!("ROA {pl} ({st:?}): disallows {got_dis:?}, validation attributes {want_dis:?}"),
            ));
        }
    }
    // suggestions never lose a currently valid announcement
    let sug = analyser.suggest(&conf, c.held, c.limit.cloned());
    let sv = serde_json::to_value(&sug).unwrap_or_default();
    let mut removed: BTreeSet<String> = BTreeSet::new();
    for key in ["stale", "redundant", "as0_redundant"] {
        for x in sv.get(key).and_then(|x| x.as_array()).cloned().unwrap_or_default() {
            if let Ok(cr) = serde_json::from_value::<ConfiguredRoa>(x) {
                removed.insert(cr.roa_configuration.payload.into_explicit_max_length().to_string());
            }
        }
    }
    let mut added: Vec<Roa> = Vec::new();
    for x in sv.get("too_permissive").and_then(|x| x.as_array()).cloned().unwrap_or_default() {
        if let Ok(cr) = serde_json::from_value::<ConfiguredRoa>(x["current"].clone()) {
            removed.insert(cr.roa_configuration.payload.into_explicit_max_length().to_string());
        }
        for n in x["new"].as_array().cloned().unwrap_or_default() {
            if let Ok(p) = serde_json::from_value::<RoaPayload>(n) {
                let v = serde_json::to_value(p.into_explicit_max_length()).unwrap();
                let text = v["prefix"].as_str().unwrap_or("").to_string();
                let len: u8 = text.split('/').nth(1).and_then(|l| l.parse().ok()).unwrap_or(0);
                let pfx = anns_in_scope.iter().map(|a| a.p).chain(c.roas.iter().map(|r| r.p)).find(|q| q.text() == text);
                if let Some(pfx) = pfx {
                    added.push(Roa {
                        p: pfx,
                        max: v["max_length"].as_u64().map(|m| m as u8).unwrap_or(len),
                        asn: v["asn"].as_u64().unwrap_or(0) as u32,
                    });
                }
            }
        }
    }
    let mut after: Vec<Roa> = held_roas
        .iter()
        .filter(|r| !removed.contains(&payload(r).into_explicit_max_length().to_string()))
        .cloned()
        .collect();
    after.extend(added);
    for a in &anns_in_scope {
        if rov(&held_roas, a) == Verdict::Valid && rov(&after, a) != Verdict::Valid {
            return Some((
                "suggestion".into(),
                format!(
                    "following the suggestions (remove {removed:?}) would stop validating {} AS{}",
                    a.p.text(), a.asn
                ),
            ));
        }
    }
    let _ = c.held_name;
    None
}

type Universe = (&'static str, Vec<Pfx>, Vec<(&'static str, ResourceSet)>, Vec<(&'static str, Option<ResourceSet>)>);

fn universes() -> Vec<Universe> {
    vec![
        (
            "v4",
            vec![
                v4([10, 0, 0, 0], 22),
                v4([10, 0, 0, 0], 23),
                v4([10, 0, 2, 0], 23),
                v4([10, 0, 0, 0], 24),
                v4([10, 0, 1, 0], 24),
                v4([10, 0, 2, 0], 24),
                v4([10, 0, 3, 0], 24),
                v4([10, 0, 0, 0], 8),
                v4([192, 168, 0, 0], 24),
            ],
            vec![
                ("all", ResourceSet::from_strs("", "10.0.0.0/8", "").unwrap()),
                ("half", ResourceSet::from_strs("", "10.0.0.0/23", "").unwrap()),
            ],
            vec![
                ("none", None),
                ("10.0.0.0/23", Some(ResourceSet::from_strs("", "10.0.0.0/23", "").unwrap())),
                ("10.0.2.0/24", Some(ResourceSet::from_strs("", "10.0.2.0/24", "").unwrap())),
            ],
        ),
        (
            "v6",
            vec![
                v6("2001:db8::", 46),
                v6("2001:db8::", 47),
                v6("2001:db8:2::", 47),
                v6("2001:db8::", 48),
                v6("2001:db8:1::", 48),
                v6("2001:db8:2::", 48),
                v6("2001:db8:3::", 48),
                v6("2001:db8::", 32),
            ],
            vec![("all", ResourceSet::from_strs("", "", "2001:db8::/32").unwrap())],
            vec![
                ("none", None),
                ("2001:db8::/47", Some(ResourceSet::from_strs("", "", "2001:db8::/47").unwrap())),
            ],
        ),
        (
            "edge",
            vec![
                v4([0, 0, 0, 0], 0),
                v4([0, 0, 0, 0], 1),
                v4([128, 0, 0, 0], 1),
                v4([10, 0, 0, 0], 31),
                v4([10, 0, 0, 0], 32),
                v4([10, 0, 0, 1], 32),
                v6("::", 0),
                v6("2001:db8::", 127),
                v6("2001:db8::1", 128),
            ],
            vec![("everything", ResourceSet::from_strs("", "0.0.0.0/0", "::/0").unwrap())],
            vec![("none", None)],
        ),
    ]
}

fn parse_pfx(t: &str) -> Option<Pfx> {
    let (a, l) = t.split_once('/')?;
    let len: u8 = l.parse().ok()?;
    if a.contains(':') {
        let ip: std::net::Ipv6Addr = a.parse().ok()?;
        Some(Pfx { v6: true, addr: u128::from(ip), len })
    } else {
        let ip: std::net::Ipv4Addr = a.parse().ok()?;
        Some(Pfx { v6: false, addr: u32::from(ip) as u128, len })
    }
}

/// Re-evaluates the single case recorded in a replay file.
fn replay(file: &str) -> i32 {
    let v: serde_json::Value = match std::fs::read(file).ok().and_then(|b| serde_json::from_slice(&b).ok()) {
        Some(v) => v,
        None => {
            eprintln!("cannot read replay {file}");
            return 2;
        }
    };
    let input = v["input"].as_str().unwrap_or("").to_string();
    let field = |name: &str| -> String {
        input
            .split_whitespace()
            .find_map(|w| w.strip_prefix(&format!("{name}=")).map(|x| x.to_string()))
            .unwrap_or_default()
    };
    let list = |name: &str| -> Vec<String> {
        let Some(i) = input.find(&format!("{name}=[")) else { return vec![] };
        let rest = &input[i + name.len() + 2..];
        let end = rest.find(']').unwrap_or(rest.len());
        rest[..end].split("\", \"").map(|x| x.trim_matches('"').to_string()).filter(|x| !x.is_empty()).collect()
    };
    let us = universes();
    let Some(u) = us.iter().find(|u| u.0 == field("universe")) else {
        eprintln!("unknown universe in replay");
        return 2;
    };
    let Some(held) = u.2.iter().find(|h| h.0 == field("held")) else { return 2 };
    let Some(limit) = u.3.iter().find(|l| l.0 == field("limit")) else { return 2 };
    let roas: Vec<Roa> = list("roas")
        .iter()
        .filter_map(|t| {
            let (pm, asn) = t.split_once(" => ")?;
            let (p, m) = pm.rsplit_once('-')?;
            Some(Roa { p: parse_pfx(p)?, max: m.parse().ok()?, asn: asn.parse().ok()? })
        })
        .collect();
    let anns: Vec<Ann> = list("anns")
        .iter()
        .filter_map(|t| {
            let (p, asn) = t.split_once(" AS")?;
            Some(Ann { p: parse_pfx(p)?, asn: asn.parse().ok()? })
        })
        .collect();
    let cfg = crate::world::make_config(&crate::world::WorldCfg::default());
    let analyser = BgpAnalyser::new(&cfg);
    let c = Case {
        roas: &roas,
        anns: &anns,
        held: &held.1,
        held_name: held.0,
        limit: limit.1.as_ref(),
        dup_roa: field("dup_roa") == "true",
        dup_ann: field("dup_ann") == "true",
        rev_roa: field("rev_roa") == "true",
    };
    println!("replaying: {} ROAs, {} announcements, held={}, limit={}", roas.len(), anns.len(), held.0, limit.0);
    match compare(&analyser, &c) {
        Some((k, d)) => {
            println!("  -> {k}: {d}");
            println!("VIOLATION property=C17 replay={file}");
            1
        }
        None => {
            println!("OK property=C17 replay holds");
            0
        }
    }
}

pub fn run(tier: &Tier, args: &[String]) -> i32 {
    if let Some(f) = crate::report::arg_value(args, "--replay") {
        return replay(&f);
    }
    let mut out = Outcome::new("C17", tier, "model_checking");
    out.assumptions = vec![
        "prefix universe: a /22 with all its more specifics down to /24 (v4) and a /46 down to /48 (v6), the covering /8 resp. /32, one prefix outside; max lengths {len, len+1, family maximum}; ROA origins {0,1,2}, announcement origins {1,2,3}".into(),
        "announcements enter through the real RISwhois text parser and prefix tree (hook H4: verif_load), seen-by count above the threshold".into(),
        "sub-kinds of invalid (length / ASN / AS0) are not distinguished by the oracle, only valid / invalid / not found".into(),
    ];
    // (max ROAs, max announcements, full menus)
    let shapes: Vec<(usize, usize, bool)> = if tier.thorough {
        vec![(2, 3, true), (3, 2, false)]
    } else {
        vec![(2, 2, false)]
    };
    let universes = universes();
    let evaluations = Arc::new(AtomicU64::new(0));
    let verdict_counts = Arc::new(Mutex::new([0u64; 3]));
    let findings: Arc<Mutex<Vec<(String, String, String)>>> = Arc::new(Mutex::new(Vec::new()));
    let mut samples = Vec::new();
    let mut spaces = Vec::new();
    for (max_roas, max_anns, full_menu) in shapes.iter().cloned() {
    for (uname, prefixes, helds, limits) in &universes {
        // ROA menu
        let mut roa_menu: Vec<Roa> = Vec::new();
        for p in prefixes {
            let fam_max = p.width();
            let mut maxes = vec![p.len, (p.len + 1).min(fam_max), fam_max];
            if !full_menu {
                maxes = vec![p.len, (p.len + 2).min(fam_max)];
            }
            maxes.dedup();
            for m in maxes {
                for asn in [0u32, 1, 2] {
                    roa_menu.push(Roa { p: *p, max: m, asn });
                }
            }
        }
        let mut ann_menu: Vec<Ann> = Vec::new();
        for p in prefixes {
            for asn in [1u32, 2, 3] {
                ann_menu.push(Ann { p: *p, asn });
            }
        }
        if !full_menu {
            // quick: origins {1,2} for announcements, drop the /8-/32 ROAs with AS2
            ann_menu.retain(|a| a.asn != 3);
        }
        let roa_sets = subsets(&roa_menu, max_roas);
        let ann_sets = Arc::new(subsets(&ann_menu, max_anns));
        spaces.push(json!({
            "universe": uname, "max_roas": max_roas, "max_anns": max_anns, "roa_menu": roa_menu.len(), "ann_menu": ann_menu.len(),
            "roa_sets": roa_sets.len(), "ann_sets": ann_sets.len(), "scopes": helds.len(), "limits": limits.len(), "duplicate_variants": 3, "reversed_roa_order_variant": true,
        }));
        if samples.len() < 4 {
            samples.push(json!({
                "universe": uname,
                "roas": roa_sets.last().unwrap().iter().map(|r| format!("{}-{} => {}", r.p.text(), r.max, r.asn)).collect::<Vec<_>>(),
                "announcements": ann_sets.last().unwrap().iter().map(|a| format!("{} AS{}", a.p.text(), a.asn)).collect::<Vec<_>>(),
            }));
        }
        for (hname, held) in helds {
            let roa_sets = Arc::new(roa_sets.clone());
            let nthreads = 16;
            let mut handles = Vec::new();
            for t in 0..nthreads {
                let roa_sets = roa_sets.clone();
                let ann_sets = ann_sets.clone();
                let held = held.clone();
                let limits = limits.clone();
                let hname = hname.to_string();
                let uname = uname.to_string();
                let evaluations = evaluations.clone();
                let findings = findings.clone();
                let verdict_counts = verdict_counts.clone();
                handles.push(std::thread::spawn(move || {
                    let cfg = crate::world::make_config(&crate::world::WorldCfg::default());
                    let analyser = BgpAnalyser::new(&cfg);
                    let mut local = 0u64;
                    let mut vc = [0u64; 3];
                    for (i, roas) in roa_sets.iter().enumerate() {
                        if i % nthreads != t {
                            continue;
                        }
                        for anns in ann_sets.iter() {
                            for a in anns {
                                match rov(roas, a) {
                                    Verdict::Valid => vc[0] += 1,
                                    Verdict::Invalid => vc[1] += 1,
                                    Verdict::NotFound => vc[2] += 1,
                                }
                            }
                            for (lname, limit) in limits.iter() {
                                for (dup_roa, dup_ann, rev_roa) in [(false, false, false), (true, false, false), (false, true, false), (false, false, true)] {
                                    if (dup_roa || dup_ann || rev_roa) && limit.is_some() {
                                        continue;
                                    }
                                    if rev_roa && roas.len() < 2 {
                                        continue;
                                    }
                                    if (dup_roa && roas.is_empty()) || (dup_ann && anns.is_empty()) {
                                        continue;
                                    }
                                    local += 1;
                                    let c = Case { roas, anns, held: &held, held_name: &hname, limit: limit.as_ref(), dup_roa, dup_ann, rev_roa };
                                    let r = std::panic::catch_unwind(std::panic::AssertUnwindSafe(|| compare(&analyser, &c)));
                                    let v = match r {
                                        Ok(v) => v,
                                        Err(p) => Some(("panic".to_string(), crate::e1::panic_message(&p))),
                                    };
                                    if let Some((k, d)) = v {
                                        let mut f = findings.lock().unwrap();
                                        if f.len() < 200 {
                                            let input = format!(
                                                "universe={uname} held={hname} limit={lname} dup_roa={dup_roa} dup_ann={dup_ann} rev_roa={rev_roa} roas={:?} anns={:?}",
                                                roas.iter().map(|r| format!("{}-{} => {}", r.p.text(), r.max, r.asn)).collect::<Vec<_>>(),
                                                anns.iter().map(|a| format!("{} AS{}", a.p.text(), a.asn)).collect::<Vec<_>>()
                                            );
                                            f.push((k, d, input));
                                        }
                                    }
                                }
                            }
                        }
                    }
                    evaluations.fetch_add(local, Ordering::SeqCst);
                    let mut g = verdict_counts.lock().unwrap();
                    for i in 0..3 {
                        g[i] += vc[i];
                    }
                }));
            }
            for h in handles {
                let _ = h.join();
            }
        }
    }
    }
    let f = findings.lock().unwrap();
    // group by kind + normalised detail class (numbers / prefixes masked)
    let mut seen_classes: BTreeSet<String> = BTreeSet::new();
    for (k, d, input) in f.iter() {
        let class: String = d.chars().filter(|c| !c.is_ascii_digit()).collect();
        let sig = format!("{k}|{class}");
        if !seen_classes.insert(sig.clone()) {
            continue;
        }
        out.findings.push(Finding {
            signature: format!("{sig} @ {input}"),
            text: format!("{k}: {d}; input: {input}"),
            replay: json!({"kind": k, "detail": d, "input": input}),
        });
    }
    let ev = evaluations.load(Ordering::SeqCst);
    let vc = verdict_counts.lock().unwrap();
    out.coverage = json!({
        "evaluations": ev,
        "distinct_nontrivial": ev,
        "states": ev,
        "transitions": ev,
        "traces_validated_against_impl": ev,
        "rule": format!("every (ROA set, announcement set, held resources, scope limit, duplicate variant) with the set sizes and menus listed per universe in `spaces` (shapes {shapes:?} = max ROAs, max announcements, full menus); each is a distinct differential comparison of the real analyser against the brute-force RFC 6811 validator (verdict per announcement, per-ROA attribution, suggestion safety)"),
        "spaces": spaces,
        "samples": samples,
        "exhaustive": true,
        "announcement_verdicts_expected": {"valid": vc[0], "invalid": vc[1], "not_found": vc[2]},
    });
    out.finish()
}
