//! C18 — concurrent requests and background tasks never deadlock or lose
//! work. Controlled-scheduler exploration (engine E2) of API requests,
//! child/parent exchanges, repository synchronisation and the task scheduler
//! running at the same time, compared with serial executions.

use std::collections::BTreeSet;
use std::time::Duration;

use krill::api::admin::UpdateChildRequest;
use krill::server::scheduler::{verif_step, VerifStepOutcome};
use serde_json::{json, Value};

use crate::checks::c08::observable;
use crate::e2::{self, ExecOutcome};
use crate::report::{Finding, Outcome, Tier};
use crate::world::{ca, child_h, parent_h, res, World, WorldCfg};

fn cfg(disk: bool) -> WorldCfg {
    WorldCfg { disk, roa_aggregate_threshold: 100, roa_deaggregate_threshold: 90, ..WorldCfg::default() }
}

fn build(disk: bool) -> Result<World, String> {
    let mut w = World::build_w2(cfg(disk), res("AS65000-AS65005", "10.0.0.0/16, 10.1.0.0/16", "")).map_err(|e| e.to_string())?;
    let o = w.apply_pumped(&crate::ops::Op::Roa { ca: "ca".into(), add: vec!["10.0.1.0/24 => 65000".into(), "10.1.0.0/24 => 65001".into()], del: vec![] });
    if !o.ok {
        return Err(format!("{:?}", o.err));
    }
    w.settle()?;
    Ok(w)
}

type Body = Box<dyn FnOnce() -> Vec<String> + Send>;

/// The operations of a variant (name, closure factory). Each returns a short
/// result string.
fn operations(w: &World, variant: &str) -> Vec<(&'static str, Box<dyn Fn() -> String + Send>)> {
    let k = w.krill.clone();
    let slow = w.slow.clone();
    let actor = w.actor.clone();
    let roa = |target: &'static str, payload: &'static str| -> Box<dyn Fn() -> String + Send> {
        let k = k.clone();
        let a = actor.clone();
        Box::new(move || {
            let (p, asn) = payload.split_once(" => ").unwrap();
            let d: krill::api::roa::RoaConfigurationUpdates =
                serde_json::from_value(json!({"added": [{"asn": asn.parse::<u32>().unwrap(), "prefix": p}], "removed": []})).unwrap();
            match k.ca_manager().ca_routes_update(ca(target), d, &a, &k) {
                Ok(()) => "ok".into(),
                Err(e) => format!("err: {e}"),
            }
        })
    };
    let aspa = || -> Box<dyn Fn() -> String + Send> {
        let k = k.clone();
        let a = actor.clone();
        Box::new(move || {
            let asn = |a: u32| rpki::resources::Asn::from_u32(a);
            let u = krill::api::aspa::AspaDefinitionUpdates {
                add_or_replace: vec![krill::api::aspa::AspaDefinition { customer: asn(65000), providers: vec![asn(65001), asn(65002)] }],
                remove: vec![],
            };
            match k.ca_manager().ca_aspas_definitions_update(ca("ca"), u, &a, &k) {
                Ok(()) => "ok".into(),
                Err(e) => format!("err: {e}"),
            }
        })
    };
    let sync_parent = || -> Box<dyn Fn() -> String + Send> {
        let k = k.clone();
        let s = slow.clone();
        let a = actor.clone();
        Box::new(move || match k.ca_manager().ca_sync_parent(&ca("ca"), 0, &parent_h("parent"), &a, &s) {
            Ok(_) => "ok".into(),
            Err(e) => format!("err: {e}"),
        })
    };
    let sync_repo = |target: &'static str| -> Box<dyn Fn() -> String + Send> {
        let k = k.clone();
        let s = slow.clone();
        Box::new(move || match k.ca_manager().cas_repo_sync_single(&ca(target), 0, &s) {
            Ok(_) => "ok".into(),
            Err(e) => format!("err: {e}"),
        })
    };
    let entitle = |v4: &'static str| -> Box<dyn Fn() -> String + Send> {
        let k = k.clone();
        let a = actor.clone();
        Box::new(move || {
            match k.ca_manager().ca_child_update(&ca("parent"), child_h("ca"), UpdateChildRequest::resources(res("AS65000-AS65005", v4, "")), &a, &k) {
                Ok(()) => "ok".into(),
                Err(e) => format!("err: {e}"),
            }
        })
    };
    let rrdp = || -> Box<dyn Fn() -> String + Send> {
        let k = k.clone();
        Box::new(move || match k.repo_manager().update_rrdp_if_needed() {
            Ok(_) => "ok".into(),
            Err(e) => format!("err: {e}"),
        })
    };
    let republish = || -> Box<dyn Fn() -> String + Send> {
        let k = k.clone();
        Box::new(move || match k.ca_manager().republish_all(true, &k) {
            Ok(_) => "ok".into(),
            Err(e) => format!("err: {e}"),
        })
    };
    // one client: a change followed by the repository synchronisation it asks for
    let then = |a: Box<dyn Fn() -> String + Send>, b: Box<dyn Fn() -> String + Send>| -> Box<dyn Fn() -> String + Send> {
        Box::new(move || {
            let r = a();
            if r != "ok" {
                return r;
            }
            b()
        })
    };
    match variant {
        // two clients that each change the CA and have it published at once,
        // while the scheduler works on the tasks (among them the RRDP update)
        "two-syncs" => vec![
            ("roa+sync", then(roa("ca", "10.0.2.0/24 => 65000"), sync_repo("ca"))),
            ("aspa+sync", then(aspa(), sync_repo("ca"))),
        ],
        // the periodic re-publication (here forced) against a change of the same CA
        "republish" => vec![("roa", roa("ca", "10.0.2.0/24 => 65000")), ("republish", republish())],
        "same-ca" => vec![("roa", roa("ca", "10.0.2.0/24 => 65000")), ("aspa", aspa())],
        "parent-child" => vec![("entitle", entitle("10.0.0.0/16")), ("sync-parent", sync_parent())],
        "two-cas" => vec![("roa-ca", roa("ca", "10.0.2.0/24 => 65000")), ("roa-parent", roa("parent", "10.9.0.0/24 => 65009"))],
        "repo" => vec![("roa", roa("ca", "10.0.2.0/24 => 65000")), ("sync-repo", sync_repo("ca"))],
        "rrdp" => vec![("roa", roa("ca", "10.0.2.0/24 => 65000")), ("rrdp", rrdp())],
        _ => vec![],
    }
}

/// Settles and returns the observable state (or the reason it cannot).
fn final_state(w: &mut World) -> Result<Value, String> {
    w.settle()?;
    w.settle()?;
    // work that failed is retried later (five minutes, an hour): let that
    // time pass and run what is due then
    crate::clock::advance(3700);
    w.pump()?;
    w.settle()?;
    w.settle()?;
    crate::rp::full_check(w).map_err(|e| format!("not relying-party valid: {:?}", e.iter().take(3).collect::<Vec<_>>()))?;
    Ok(observable(w))
}

fn open(disk: bool, template: &std::path::Path) -> Result<World, String> {
    if disk {
        crate::e3::copy_dir(template, std::path::Path::new(".")).map_err(|e| e.to_string())?;
        World::reopen(cfg(true)).map_err(|e| e.to_string())
    } else {
        build(false)
    }
}

fn exec(disk: bool, template: &std::path::Path, variant: &str, reference: &BTreeSet<String>, prefix: &[usize]) -> ExecOutcome {
    let mut out = ExecOutcome::default();
    let mut w = match open(disk, template) {
        Ok(w) => w,
        Err(e) => {
            out.violations.push(("machinery".into(), e));
            return out;
        }
    };
    let mut bodies: Vec<Body> = Vec::new();
    let ops = operations(&w, variant);
    let names: Vec<&str> = ops.iter().map(|(n, _)| *n).collect();
    for (_, f) in ops {
        bodies.push(Box::new(move || vec![f()]));
    }
    // the scheduler thread: the daemon's own loop body, until idle
    let slow = w.slow.clone();
    let started = w.started;
    bodies.push(Box::new(move || {
        let mut v = Vec::new();
        let mut idle = 0;
        for _ in 0..60 {
            match verif_step(&slow, started) {
                VerifStepOutcome::Idle => {
                    idle += 1;
                    if idle >= 2 {
                        break;
                    }
                }
                VerifStepOutcome::Processed { task_key, result, .. } => {
                    idle = 0;
                    v.push(format!("{}:{result}", task_key.split_once('-').map(|x| x.1).unwrap_or(&task_key)));
                }
                VerifStepOutcome::Fatal(f) => {
                    v.push(format!("FATAL {f}"));
                    break;
                }
            }
        }
        v
    }));
    let result = e2::run_schedule(bodies, prefix, 400);
    out.result = result.clone();
    if let Some(d) = &result.deadlock {
        out.violations.push(("deadlock".into(), d.clone()));
        out.outcome = "deadlock".into();
        return out;
    }
    let n = names.len();
    for (i, name) in names.iter().enumerate() {
        let r = result.outputs[i].first().cloned().unwrap_or_default();
        if r.starts_with("PANIC") {
            out.violations.push(("panic".into(), format!("{name}: {r}")));
        } else if r != "ok" {
            out.violations.push(("call-failed".into(), format!("{name} failed, which it does not in any one-at-a-time execution: {r}")));
        }
    }
    for t in &result.outputs[n] {
        if t.starts_with("FATAL") || t.starts_with("PANIC") {
            out.violations.push(("scheduler-fatal".into(), t.clone()));
        }
    }
    // what the running instance reports as status is what it has stored
    // (overlapping status updates of one CA must not undo each other in the
    // instance's memory): compared with a fresh instance on a copy, before
    // any further exchange rewrites the status
    if disk {
        let live = crate::checks::c19::status_json_full(&w);
        let r = crate::checks::c04::what_if(&mut w, move |_w2| {
            match World::reopen(cfg(true)) {
                Err(e) => vec![("machinery".to_string(), format!("status reload: {e}"))],
                Ok(fresh) => {
                    let stored = crate::checks::c19::status_json_full(&fresh);
                    if stored != live {
                        let mut diff = String::new();
                        for (a, b) in live.lines().zip(stored.lines()) {
                            if a != b {
                                let i = a.bytes().zip(b.bytes()).position(|(x, y)| x != y).unwrap_or(0);
                                let lo = i.saturating_sub(100);
                                diff = format!("{}: running ...{} | stored ...{}", a.split(':').next().unwrap_or(""), a.chars().skip(lo).take(220).collect::<String>(), b.chars().skip(lo).take(220).collect::<String>());
                                break;
                            }
                        }
                        vec![("status-live-differs-from-stored".to_string(), format!("right after the concurrent calls the status the running instance reports differs from what it has stored: {diff}"))]
                    } else {
                        vec![]
                    }
                }
            }
        });
        match r {
            Ok(x) => out.violations.extend(x),
            Err(e) => out.violations.push(("machinery".into(), e)),
        }
    }
    match final_state(&mut w) {
        Err(e) => out.violations.push(("final-state".into(), e)),
        Ok(v) => {
            let s = v.to_string();
            if !reference.contains(&s) {
                if std::env::var("VERIF_DEBUG").is_ok() {
                    eprintln!("DEBUG pending tasks: {:?}", w.pending_tasks());
                    eprintln!("DEBUG repo status ca: {:?}", w.krill.ca_manager().get_repo_status(&ca("ca")).map(|s| serde_json::to_string(&s).unwrap_or_default().chars().take(600).collect::<String>()));
                    let d = w.krill.repo_manager().get_publisher_details(crate::world::pub_h("ca")).map(|d| d.current_files.iter().map(|f| f.uri.to_string()).collect::<Vec<_>>());
                    eprintln!("DEBUG server files ca: {d:?}");
                }
                let first = reference.iter().next().cloned().unwrap_or_default();
                let want: Value = serde_json::from_str(&first).unwrap_or_default();
                out.violations.push(("not-serialisable".into(), format!("the state after quiescence is that of no one-at-a-time execution: {}", diff(&want, &v, ""))));
            }
        }
    }
    out.outcome = format!("calls {:?}; scheduler ran {}", result.outputs[..n].iter().map(|o| o.first().cloned().unwrap_or_default().chars().take(20).collect::<String>()).collect::<Vec<_>>(), result.outputs[n].len());
    out
}

fn diff(a: &Value, b: &Value, path: &str) -> String {
    match (a, b) {
        (Value::Object(x), Value::Object(y)) => {
            for (k, v) in x {
                match y.get(k) {
                    None => return format!("{path}/{k} missing"),
                    Some(w) if w != v => return diff(v, w, &format!("{path}/{k}")),
                    _ => {}
                }
            }
            for k in y.keys() {
                if !x.contains_key(k) {
                    return format!("{path}/{k} extra");
                }
            }
            String::new()
        }
        _ => format!("{path}: {} vs {}", a.to_string().chars().take(160).collect::<String>(), b.to_string().chars().take(160).collect::<String>()),
    }
}

/// The final states of all one-at-a-time executions (every order of the
/// operations, background tasks run to completion after each).
fn serial_reference(disk: bool, template: &std::path::Path, variant: &str, root: &std::path::Path) -> Result<BTreeSet<String>, String> {
    let n = {
        // number of operations of the variant
        match variant {
            _ => 2,
        }
    };
    let mut perms: Vec<Vec<usize>> = Vec::new();
    fn permute(cur: &mut Vec<usize>, n: usize, out: &mut Vec<Vec<usize>>) {
        if cur.len() == n {
            out.push(cur.clone());
            return;
        }
        for i in 0..n {
            if !cur.contains(&i) {
                cur.push(i);
                permute(cur, n, out);
                cur.pop();
            }
        }
    }
    permute(&mut vec![], n, &mut perms);
    let mut set = BTreeSet::new();
    for (pi, perm) in perms.iter().enumerate() {
        let dir = root.join(format!("serial-{variant}-{disk}-{pi}"));
        std::fs::create_dir_all(&dir).map_err(|e| e.to_string())?;
        let (r, code) = crate::e3::fork_in_dir(&dir, || -> Result<String, String> {
            let mut w = open(disk, template)?;
            for i in perm {
                let ops = operations(&w, variant);
                let r = (ops[*i].1)();
                if r != "ok" {
                    return Err(format!("serial execution {perm:?}: {} -> {r}", ops[*i].0));
                }
                w.pump()?;
            }
            final_state(&mut w).map(|v| v.to_string())
        });
        let _ = std::fs::remove_dir_all(&dir);
        match r {
            Some(Ok(s)) => {
                set.insert(s);
            }
            Some(Err(e)) => return Err(e),
            None => return Err(format!("serial execution {perm:?} died ({code})")),
        }
    }
    Ok(set)
}

pub fn run(tier: &Tier, args: &[String]) -> i32 {
    let mut out = Outcome::new("C18", tier, "model_checking");
    out.assumptions = vec![
        "threads: 2-3 operation threads (one call each) and the scheduler thread running the daemon's own loop body (verif_step) until it is idle twice; scheduling points are the reported lock hand-offs (hook H2); preemption bound as stated".into(),
        "operations of one variant succeed in every serial order, so a failing call is a violation; the reference for the final state is the set of states reached by all serial orders (each followed by the background tasks), compared on the observable projection of C08 after settling".into(),
        "unreported locks are handled by a 400 ms watchdog; 'deadlock' = no thread can be resumed and none makes progress for 10 s".into(),
    ];
    if let Some(file) = crate::report::arg_value(args, "--replay") {
        let v: Value = match std::fs::read(&file).ok().and_then(|b| serde_json::from_slice(&b).ok()) {
            Some(v) => v,
            None => {
                eprintln!("cannot read {file}");
                return 2;
            }
        };
        let variant = v["variant"].as_str().unwrap_or("same-ca").to_string();
        let disk = v["disk"].as_bool().unwrap_or(true);
        let schedule: Vec<usize> = v["schedule"].as_array().map(|a| a.iter().filter_map(|x| x.as_u64().map(|x| x as usize)).collect()).unwrap_or_default();
        let root = crate::e1run::scratch_root();
        let _guard = crate::e1run::ScratchGuard(root.clone());
        let _ = std::fs::remove_dir_all(&root);
        let template = root.join("template");
        std::fs::create_dir_all(&template).unwrap();
        let (built, _) = crate::e3::fork_in_dir(&template, || build(true).map(|_| crate::keys::persistent_used()));
        let Some(Ok(keys_used)) = built else {
            eprintln!("template build failed");
            return 2;
        };
        crate::keys::skip(keys_used + 8);
        let reference = match serial_reference(disk, &template, &variant, &root) {
            Ok(r) => r,
            Err(e) => {
                eprintln!("serial reference: {e}");
                return 2;
            }
        };
        let x = root.join("replay");
        std::fs::create_dir_all(&x).unwrap();
        std::env::set_current_dir(&x).unwrap();
        let o = exec(disk, &template, &variant, &reference, &schedule);
        println!("outputs: {:?}", o.result.outputs);
        for c in &o.result.trace {
            println!("  choice among {:?} ({:?}): {}", c.enabled, c.what, c.enabled.get(c.chosen).copied().unwrap_or(0));
        }
        for (k, d) in &o.violations {
            println!("  -> {k}: {d}");
        }
        let _ = std::env::set_current_dir("/");
        if o.violations.is_empty() {
            println!("OK property=C18 replay holds");
            return 0;
        }
        println!("VIOLATION property=C18 replay={file}");
        return 1;
    }
    let bound: usize = crate::report::arg_value(args, "--bound").and_then(|b| b.parse().ok()).unwrap_or(if tier.thorough { 2 } else { 1 });
    let root = crate::e1run::scratch_root();
    let _guard = crate::e1run::ScratchGuard(root.clone());
    let _ = std::fs::remove_dir_all(&root);
    std::fs::create_dir_all(&root).unwrap();
    let template = root.join("template");
    std::fs::create_dir_all(&template).unwrap();
    let (built, _) = crate::e3::fork_in_dir(&template, || build(true).map(|_| crate::keys::persistent_used()));
    let Some(Ok(keys_used)) = built else {
        out.machinery_errors.push("template build failed".into());
        return out.finish();
    };
    crate::keys::skip(keys_used + 8);
    let variants: Vec<(&str, bool)> = if tier.thorough {
        vec![("same-ca", true), ("parent-child", true), ("two-cas", true), ("repo", true), ("rrdp", true), ("republish", true), ("two-syncs", true), ("same-ca", false), ("parent-child", false)]
    } else {
        vec![("same-ca", true), ("parent-child", true), ("two-cas", true), ("repo", true), ("rrdp", true), ("republish", true), ("two-syncs", true), ("parent-child", false)]
    };
    let only = crate::report::arg_value(args, "--variant");
    let mut runs = Vec::new();
    let mut samples: Vec<Value> = Vec::new();
    let mut total = 0u64;
    // quick tier: one wall budget for all variants together (a variant gets
    // an equal share of what is left, at least five seconds)
    let quick_deadline = std::time::Instant::now() + Duration::from_secs(60);
    let n_variants = variants.len();
    for (vi, (variant, disk)) in variants.into_iter().enumerate() {
        if only.as_deref().map(|o| o != variant).unwrap_or(false) {
            continue;
        }
        let reference = match serial_reference(disk, &template, variant, &root) {
            Ok(r) => r,
            Err(e) if e.contains("not relying-party valid") => {
                // even one at a time the calls of this variant end, after
                // all background work, in a tree that does not validate
                out.findings.push(Finding {
                    signature: format!("serial-execution-invalid|{} @ variant={variant}", crate::e1::normalize(&e)),
                    text: format!("[{variant}/{}] a one-at-a-time execution of the variant's calls, followed by all background work, ends in a published tree that is {e}", if disk { "disk" } else { "memory" }),
                    replay: json!({"variant": variant, "disk": disk, "kind": "serial-execution-invalid", "detail": e}),
                });
                continue;
            }
            Err(e) => {
                out.machinery_errors.push(format!("{variant}: serial reference: {e}"));
                continue;
            }
        };
        let cap = if tier.thorough { 30_000 } else { 2_500 };
        let wall = if tier.thorough {
            Duration::from_secs(1200)
        } else {
            let left = quick_deadline.saturating_duration_since(std::time::Instant::now());
            (left / (n_variants - vi) as u32).max(Duration::from_secs(5)).min(Duration::from_secs(45))
        };
        let xroot = root.join(format!("{variant}-{disk}"));
        std::fs::create_dir_all(&xroot).unwrap();
        let tpl = template.clone();
        let b = if disk { bound } else { bound.min(1) };
        let stats = e2::explore(&xroot, b, cap, 16, wall, false, &|prefix| exec(disk, &tpl, variant, &reference, prefix));
        total += stats.executions;
        for m in &stats.machinery {
            out.machinery_errors.push(format!("{variant}: {m}"));
        }
        let mut seen = BTreeSet::new();
        for (prefix, kind, detail, result) in &stats.violations {
            if kind == "machinery" {
                out.machinery_errors.push(format!("{variant}: {detail}"));
                continue;
            }
            let key = format!("{kind}|{}", crate::e1::normalize(detail));
            if !seen.insert(key.clone()) {
                continue;
            }
            out.findings.push(Finding {
                signature: format!("{key} @ variant={variant} backend={}", if disk { "disk" } else { "memory" }),
                text: format!("[{variant}/{}] {kind}: {detail}; schedule {prefix:?}", if disk { "disk" } else { "memory" }),
                replay: json!({"variant": variant, "disk": disk, "schedule": prefix, "trace": result.trace, "outputs": result.outputs, "kind": kind, "detail": detail}),
            });
        }
        samples.extend(stats.samples.iter().cloned());
        runs.push(json!({
            "variant": variant, "backend": if disk { "disk" } else { "memory" }, "preemption_bound": b,
            "serial_orders_final_states": reference.len(),
            "schedules": stats.executions, "choice_points": stats.choice_points, "longest_schedule": stats.max_trace,
            "distinct_outcomes": stats.distinct_outcomes.len(), "cap_hit": stats.capped, "watchdog_fired": stats.watchdog_fired,
            "schedules_not_followed_exactly": stats.diverged,
            "outcomes": stats.distinct_outcomes.iter().take(12).collect::<Vec<_>>(),
        }));
    }
    let capped = runs.iter().any(|r| r["cap_hit"] == json!(true) || r["schedules_not_followed_exactly"].as_u64().unwrap_or(0) > 0);
    out.coverage = json!({
        "schedules": total,
        "states": total,
        "transitions": runs.iter().map(|r| r["choice_points"].as_u64().unwrap_or(0)).sum::<u64>(),
        "traces_validated_against_impl": total,
        "rule": "every schedule of the variant's threads with at most the stated number of preemptions, executed on the real runtime from the same initial state: all threads complete (no deadlock), no call fails, the scheduler reports nothing fatal, and after settling the observable state is that of one of the serial orders and the tree is relying-party valid",
        "runs": runs,
        "samples": samples.iter().take(6).collect::<Vec<_>>(),
        "exhaustive": !capped,
    });
    out.finish()
}
