//! C19 — Reported parent, repository and child status matches the last
//! exchange.

use std::collections::BTreeSet;
use std::sync::atomic::Ordering;

use serde_json::Value;

use crate::checks::c01;
use crate::checks::c04::what_if;
use crate::e1::{Header, Model};
use crate::e1run::{self, Config, Spec};
use crate::ops::{Op, OpOutcome, r3};
use crate::report::{Outcome, Tier};
use crate::world::{World, ca, child_h, parent_h, pub_h};

fn status_json(w: &World) -> Value {
    let cm = w.krill.ca_manager();
    let mut m = serde_json::Map::new();
    let mut hs = cm.ca_handles().unwrap_or_default();
    hs.sort_by_key(|h| h.to_string());
    for h in hs {
        if let Ok(st) = cm.get_ca_status(&h) {
            let mut v = serde_json::json!({
                "repo": serde_json::to_value(st.repo()).unwrap(),
                "parents": serde_json::to_value(st.parents()).unwrap(),
            });
            let mut ch = serde_json::Map::new();
            let mut keys: Vec<_> = st.children().keys().cloned().collect();
            keys.sort_by_key(|k| k.to_string());
            for k in keys {
                ch.insert(k.to_string(), serde_json::to_value(&st.children()[&k]).unwrap());
            }
            v["children"] = Value::Object(ch);
            // order-insensitive lists
            m.insert(h.to_string(), crate::fingerprint::mask(&v));
        }
    }
    Value::Object(m)
}

fn sort_arrays(v: &Value) -> Value {
    match v {
        Value::Object(m) => {
            let mut out = serde_json::Map::new();
            let mut keys: Vec<&String> = m.keys().collect();
            keys.sort();
            for k in keys {
                out.insert(k.clone(), sort_arrays(&m[k]));
            }
            Value::Object(out)
        }
        Value::Array(a) => {
            let mut items: Vec<Value> = a.iter().map(sort_arrays).collect();
            items.sort_by_cached_key(|i| i.to_string());
            Value::Array(items)
        }
        other => other.clone(),
    }
}

/// status with everything kept, timestamps included (a restart must not
/// change anything at all); only list order is normalised
pub fn status_json_full(w: &World) -> String {
    let cm = w.krill.ca_manager();
    let mut out = Vec::new();
    let mut hs = cm.ca_handles().unwrap_or_default();
    hs.sort_by_key(|h| h.to_string());
    for h in hs {
        if let Ok(st) = cm.get_ca_status(&h) {
            let mut children = serde_json::Map::new();
            for (c, s) in st.children().iter() {
                children.insert(c.to_string(), serde_json::to_value(s).unwrap());
            }
            let v = serde_json::json!({
                "repo": serde_json::to_value(st.repo()).unwrap(),
                "parents": serde_json::to_value(st.parents()).unwrap(),
                "children": children,
            });
            out.push(format!("{h}: {}", sort_arrays(&v)));
        }
    }
    out.join("\n")
}

/// Status entries for parents, children or CAs that do not exist (any more).
pub fn stale_entries(w: &World) -> Vec<(String, String)> {
    let cm = w.krill.ca_manager();
    let mut v = Vec::new();
    let handles = cm.ca_handles().unwrap_or_default();
    for h in &handles {
        let Ok(xca) = cm.get_ca(h) else { continue };
        let Ok(st) = cm.get_ca_status(h) else { continue };
        let children: BTreeSet<String> = xca.children().map(|c| c.to_string()).collect();
        for c in st.children().keys() {
            if !children.contains(&c.to_string()) {
                v.push(("stale-entry".into(), format!("{h} reports status for {c}, which is not one of its children (children: {children:?})")));
            }
        }
        let parents: BTreeSet<String> = xca.parents().map(|p| p.to_string()).collect();
        for (p, _) in st.parents().iter() {
            if !parents.contains(&p.to_string()) {
                v.push(("stale-entry".into(), format!("{h} reports status for {p}, which is not one of its parents (parents: {parents:?})")));
            }
        }
    }
    // stored records of CAs that do not exist
    if let Ok(rd) = std::fs::read_dir("data/status") {
        let names: BTreeSet<String> = handles.iter().map(|h| h.to_string()).collect();
        for e in rd.flatten() {
            let n = e.file_name().to_string_lossy().to_string();
            // (the trust anchor proxy keeps its status under "ta")
            if e.path().is_dir() && !n.starts_with('.') && n != "ta" && !names.contains(&n) {
                v.push(("stale-entry".into(), format!("status records are stored for {n}, which is not a CA of this instance")));
            }
        }
    }
    v
}

#[derive(Clone)]
pub struct C19Model {
    /// the name under which `ca` knows its parent (the parent calls itself
    /// "parent" in every configuration)
    pub parent_local: String,
    /// the name under which the parent knows `ca` (the CA calls itself "ca")
    pub child_at_parent: String,
}

impl Model for C19Model {
    fn alphabet(&mut self, w: &World, _depth: usize, _path: &[Op]) -> Vec<Op> {
        let c = || "ca".to_string();
        let p = || "parent".to_string();
        let g = || "gc".to_string();
        let cn = || self.child_at_parent.clone();
        let mut ops = vec![
            Op::Roa { ca: c(), add: vec![c01::ROA_A.into()], del: vec![] },
            Op::Roa { ca: c(), add: vec![], del: vec![c01::ROA_A.into()] },
            Op::Entitle { parent: p(), child: cn(), res: r3("AS65000", "10.0.0.0/16", "") },
            Op::Entitle { parent: p(), child: cn(), res: c01::full_ca_res() },
            Op::RemoveChild { parent: p(), child: cn() },
            Op::RemovePublisher { publisher: c() },
            Op::AddPublisher { ca: c() },
            Op::Suspend { parent: p(), child: cn() },
            Op::RemoveChild { parent: c(), child: g() },
            Op::RemoveParent { ca: g(), parent: c() },
            Op::DeleteCa { ca: g() },
            Op::RollInit { ca: c() },
            Op::RollActivate { ca: c() },
        ];
        if self.parent_local == "parent" {
            // (registers the child again and tells it about the parent under
            // the parent's own name)
            ops.push(Op::LinkChild { parent: p(), child: c(), res: c01::full_ca_res() });
        } else {
            // the CA gives up its (differently named) parent
            ops.push(Op::RemoveParent { ca: c(), parent: self.parent_local.clone() });
        }
        if w.cfg.disk {
            ops.push(Op::Restart);
        }
        // time passes: the next (possibly empty) exchange carries a new
        // time stamp, which has to survive a restart like everything else
        ops.push(Op::Tick { secs: 3600 });
        ops
    }

    fn check(
        &mut self, w: &mut World, path: &[Op], out: &OpOutcome, hdr: &Header,
    ) -> Vec<(String, String)> {
        let op = path.last().unwrap();
        if let Some(f) = &out.fatal {
            return vec![("fatal".into(), f.clone())];
        }
        let mut v = Vec::new();
        let cm = w.krill.ca_manager();
        // --- removal drops the entries
        match op {
            Op::RemoveParent { ca: x, parent } if out.ok => {
                if let Ok(st) = cm.get_parent_statuses(&ca(x))
                    && st.iter().any(|(p, _)| p.to_string() == *parent)
                {
                    v.push(("stale-entry".into(), format!("{x} still reports status for removed parent {parent}")));
                }
            }
            Op::RemoveChild { parent, child } if out.ok => {
                if let Ok(st) = cm.get_ca_status(&ca(parent))
                    && st.children().contains_key(&child_h(child))
                {
                    v.push(("stale-entry".into(), format!("{parent} still reports status for removed child {child}")));
                }
            }
            Op::DeleteCa { ca: x } if out.ok => {
                if cm.get_ca_status(&ca(x)).is_ok() {
                    v.push(("stale-entry".into(), format!("status of deleted CA {x} is still reported")));
                }
                if std::path::Path::new(&format!("data/status/{x}")).exists() {
                    v.push(("stale-entry".into(), format!("status records of deleted CA {x} are still stored")));
                }
                // and at its former parents
                for h in cm.ca_handles().unwrap_or_default() {
                    let _ = h;
                }
            }
            _ => {}
        }
        // --- the most recent attempts are ours
        let mut handles: Vec<String> =
            cm.ca_handles().unwrap_or_default().iter().map(|h| h.to_string()).collect();
        handles.sort();
        for x in &handles {
            let Ok(xca) = cm.get_ca(&ca(x)) else { continue };
            let parents: Vec<String> = xca.parents().map(|p| p.to_string()).collect();
            for p in parents {
                // the handle the parent calls itself by (the CA may know it
                // under another name)
                let real = xca
                    .parent(&parent_h(&p))
                    .map(|c| c.parent_server_info().parent_handle.to_string())
                    .unwrap_or_else(|_| p.clone());
                // ... and the handle the parent knows this CA by
                let me_there = xca
                    .parent(&parent_h(&p))
                    .map(|c| c.parent_server_info().child_handle.to_string())
                    .unwrap_or_else(|_| x.clone());
                // parent exchange
                let attempt = w.sync_parent(x, &p);
                hdr.counters[if attempt.is_ok() { 0 } else { 1 }].fetch_add(1, Ordering::Relaxed);
                let Ok(sts) = cm.get_parent_statuses(&ca(x)) else {
                    v.push(("no-status".into(), format!("no parent statuses for {x}")));
                    continue;
                };
                let Some((_, st)) = sts.iter().find(|(h, _)| h.to_string() == p) else {
                    v.push(("no-status".into(), format!("{x} has no status entry for its parent {p} after a synchronisation attempt")));
                    continue;
                };
                match (&attempt, st.opt_failure()) {
                    (Ok(_), Some(e)) => v.push((
                        "status-mismatch".into(),
                        format!("last sync of {x} with {p} succeeded but the status shows failure '{}'", e.msg),
                    )),
                    (Err(e), None) => v.push((
                        "status-mismatch".into(),
                        format!("last sync of {x} with {p} failed ({e}) but the status shows success"),
                    )),
                    (Err(e), Some(shown)) => {
                        let want = e.to_error_response();
                        if want.label != shown.label || want.msg != shown.msg {
                            v.push((
                                "status-mismatch".into(),
                                format!("status of {x}/{p} shows error '{}: {}' but the last attempt failed with '{}: {}'", shown.label, shown.msg, want.label, want.msg),
                            ));
                        }
                    }
                    (Ok(_), None) => {
                        // entitlements last returned by the parent
                        if real != "ta"
                            && let Ok(pca) = cm.get_ca(&ca(&real))
                            && let Ok(list) = pca.list(&child_h(&me_there), &w.config.issuance_timing)
                        {
                            let mut want = rpki::repository::resources::ResourceSet::default();
                            for c in list.classes() {
                                want = want.union(c.resource_set());
                            }
                            if st.all_resources != want {
                                v.push((
                                    "status-mismatch".into(),
                                    format!("status of {x}/{p} shows entitlements [{}] but the parent's last list response had [{}]", st.all_resources, want),
                                ));
                            }
                            hdr.counters[2].fetch_add(1, Ordering::Relaxed);
                        }
                        // the parent's view of this child's last request
                        if real != "ta"
                            && let Ok(pst) = cm.get_ca_status(&ca(&real))
                        {
                            match pst.children().get(&child_h(&me_there)) {
                                None => v.push((
                                    "no-status".into(),
                                    format!("{p} shows no status for child {x} although its last request succeeded"),
                                )),
                                Some(cs) => {
                                    let ok = cs
                                        .last_exchange
                                        .as_ref()
                                        .map(|e| e.result.was_success())
                                        .unwrap_or(false);
                                    if !ok {
                                        v.push((
                                            "status-mismatch".into(),
                                            format!("{p} does not show success for child {x}'s last request, which succeeded"),
                                        ));
                                    }
                                }
                            }
                        }
                    }
                }
            }
            // repository exchange
            let attempt = cm.cas_repo_sync_single(&ca(x), 0, &w.slow);
            hdr.counters[if attempt.is_ok() { 3 } else { 4 }].fetch_add(1, Ordering::Relaxed);
            let Ok(rst) = cm.get_repo_status(&ca(x)) else { continue };
            match (&attempt, rst.opt_failure()) {
                (Ok(_), Some(e)) => v.push((
                    "status-mismatch".into(),
                    format!("last repository sync of {x} succeeded but the status shows failure '{}'", e.msg),
                )),
                (Err(e), None) => v.push((
                    "status-mismatch".into(),
                    format!("last repository sync of {x} failed ({e}) but the status shows success"),
                )),
                (Ok(_), None) => {
                    if let Ok(d) = w.krill.repo_manager().get_publisher_details(pub_h(x)) {
                        // staged changes count: compare with the list reply
                        let server: BTreeSet<String> = w
                            .krill
                            .repo_manager()
                            .list(&pub_h(x))
                            .map(|l| l.elements().iter().map(|e| format!("{} {}", e.uri(), e.hash())).collect())
                            .unwrap_or_default();
                        let shown: BTreeSet<String> = rst
                            .published
                            .iter()
                            .map(|f| format!("{} {}", f.uri, f.base64.to_hash()))
                            .collect();
                        let _ = d;
                        if server != shown {
                            let only_server: Vec<_> = server.difference(&shown).map(|s| c01::short_uri(s.split(' ').next().unwrap())).collect();
                            let only_shown: Vec<_> = shown.difference(&server).map(|s| c01::short_uri(s.split(' ').next().unwrap())).collect();
                            v.push((
                                "published-mismatch".into(),
                                format!("published objects shown for {x} differ from the server's content: only at server {only_server:?}, only in status {only_shown:?}"),
                            ));
                        }
                        hdr.counters[5].fetch_add(1, Ordering::Relaxed);
                    }
                }
                (Err(_), Some(_)) => {}
            }
        }
        if let Err(f) = w.pump() {
            return vec![("fatal".into(), f)];
        }
        // --- entries exist only for what exists (also after the removed side
        // has called in again)
        v.extend(stale_entries(w));
        if !v.is_empty() {
            return v;
        }
        // --- unchanged by a restart
        if w.cfg.disk {
            let before = status_json_full(w);
            let res = what_if(w, move |w| {
                if let Err(e) = w.restart() {
                    return vec![("restart-failed".into(), e.to_string())];
                }
                let stale = stale_entries(w);
                if !stale.is_empty() {
                    return stale;
                }
                let after = status_json_full(w);
                if after != before {
                    let mut diff = String::new();
                    for (a, b) in before.lines().zip(after.lines()) {
                        if a != b {
                            // first differing position
                            let i = a.bytes().zip(b.bytes()).position(|(x, y)| x != y).unwrap_or(0);
                            let lo = i.saturating_sub(120);
                            let sa: String = a.chars().skip(lo).take(260).collect();
                            let sb: String = b.chars().skip(lo).take(260).collect();
                            diff = format!("{}: ...{} | after restart: ...{}", a.split(':').next().unwrap_or(""), sa, sb);
                            break;
                        }
                    }
                    return vec![("restart-changed-status".into(), diff)];
                }
                vec![]
            });
            match res {
                Ok(x) => v.extend(x),
                Err(e) => v.push(("machinery".into(), e)),
            }
        }
        let _ = (status_json(w), parent_h("x"));
        v
    }
}

pub fn run(tier: &Tier, args: &[String]) -> i32 {
    let mut out = Outcome::new("C19", tier, "model_checking");
    out.assumptions = vec![
        "the 'most recent attempt' is made by the check itself after every operation (one parent sync per parent, one repository sync per CA), so its outcome is known exactly".into(),
        "identity replacement on one side only cannot make a local exchange fail (local parents and the local repository bypass CMS); it is covered at the protocol level by C12".into(),
    ];
    let depth = crate::report::arg_value(args, "--depth")
        .and_then(|d| d.parse().ok())
        .unwrap_or(if tier.thorough { 5 } else { 3 });
    let cap = crate::report::arg_value(args, "--cap")
        .and_then(|d| d.parse().ok())
        .unwrap_or(if tier.thorough { 1500 } else { 50 });
    let configs = vec![
        Config {
            name: "w3".into(),
            build: Box::new(|| c01::build_w3(c01::world_cfg(100, 90))),
            model: C19Model { parent_local: "parent".into(), child_at_parent: "ca".into() },
        },
        // the CA knows its parent under a name of its own choosing, and the
        // parent knows the CA under another name than the CA's own handle
        Config {
            name: "w3-renamed-parent".into(),
            build: Box::new(|| {
                let f = c01::full_ca_res();
                (|| -> crate::world::KResult<World> {
                    let w = World::build_ta_parent(c01::world_cfg(100, 90))?;
                    w.add_ca("ca")?;
                    w.add_child_link_named("parent", "ca", "customer7", "upstream", crate::world::res(&f.0, &f.1, &f.2))?;
                    w.pump().map_err(krill::commons::error::Error::custom)?;
                    w.add_ca("gc")?;
                    w.add_child_link("ca", "gc", crate::world::res("AS65001", "10.0.0.0/24", ""))?;
                    w.pump().map_err(krill::commons::error::Error::custom)?;
                    Ok(w)
                })()
                .map_err(|e| e.to_string())
            }),
            model: C19Model { parent_local: "upstream".into(), child_at_parent: "customer7".into() },
        },
    ];
    e1run::run(
        Spec { property: "C19".into(), configs, depth, wall_cap_s: cap, procs: 16, min_states: 20 },
        &mut out,
    );
    out.finish()
}
