//! C20 — only genuine credentials authenticate, and only as the configured
//! identity. Exhaustive enumeration of login attempts (name variants x
//! password variants), of mutations of valid session tokens and of the admin
//! token, and of system-user names, against the daemon's real provider chain.

use std::collections::{BTreeMap, BTreeSet, HashMap};

use base64::engine::general_purpose::{STANDARD, STANDARD_NO_PAD, URL_SAFE, URL_SAFE_NO_PAD};
use base64::Engine;
use serde_json::{json, Value};
use unicode_normalization::UnicodeNormalization;

use crate::daemon::{Call, Daemon};
use crate::report::{Finding, Outcome, Tier};
use crate::world::WorldCfg;

struct User {
    name: &'static str,
    password: &'static str,
    role: &'static str,
}

const USERS: &[User] = &[
    User { name: "alice", password: "alice-pw", role: "admin" },
    User { name: "bob", password: "bob-pw", role: "readonly" },
    User { name: "carol", password: "carol-pw", role: "nologin" },
    User { name: "Dave", password: "dave-pw", role: "readwrite" },
    // U+FB01 LATIN SMALL LIGATURE FI: NFKC-normalises to "fiona"
    User { name: "\u{fb01}ona", password: "lig-pw", role: "readonly" },
    User { name: "fiona", password: "plain-pw", role: "admin" },
    // composed e-acute
    User { name: "zo\u{e9}", password: "zo\u{e9}-pw", role: "readonly" },
];

fn norm(s: &str) -> String {
    s.trim().nfkc().collect()
}

/// The hash as `krillc config user` produces it.
fn password_hash(id: &str, password: &str, salt: &[u8]) -> String {
    let params = scrypt::Params::new(13, 8, 1, scrypt::Params::RECOMMENDED_LEN).unwrap();
    let user_id: String = id.nfkc().collect();
    let password = norm(password);
    let weak: String = format!("krill-lagosta-{user_id}").nfkc().collect();
    let mut interim = [0u8; 32];
    scrypt::scrypt(password.as_bytes(), weak.as_bytes(), &params, &mut interim).unwrap();
    let mut fin = [0u8; 32];
    scrypt::scrypt(&interim, salt, &params, &mut fin).unwrap();
    hex::encode(fin)
}

fn config() -> krill::config::Config {
    let mut c = crate::world::make_config(&WorldCfg::default());
    let mut users = serde_json::Map::new();
    for (i, u) in USERS.iter().enumerate() {
        let salt: Vec<u8> = (0..32u8).map(|b| b.wrapping_mul(7).wrapping_add(i as u8)).collect();
        users.insert(
            u.name.to_string(),
            json!({"password_hash": password_hash(u.name, u.password, &salt), "salt": hex::encode(&salt), "role": u.role}),
        );
    }
    c.auth_users = Some(serde_json::from_value(Value::Object(users)).expect("auth users"));
    c.auth_type = krill::config::AuthType::ConfigFile;
    let roles: krill::daemon::http::auth::RoleMap = serde_json::from_value(json!({
        "admin": {"permissions": ["any"]},
        "readwrite": {"permissions": ["login", "update", "read"]},
        "readonly": {"permissions": ["login", "read"]},
        "nologin": {"permissions": ["ca-read", "ca-list", "routes-read"]},
    }))
    .expect("roles");
    c.auth_roles = std::sync::Arc::new(roles);
    let mut unix = HashMap::new();
    unix.insert("operator".to_string(), "admin".to_string());
    unix.insert("viewer".to_string(), "readonly".to_string());
    c.unix_users = unix;
    c
}

fn role_perm(role: &str, perm: &str) -> bool {
    match role {
        "admin" => true,
        "readwrite" => perm != "ca-admin" && perm != "ca-delete" && perm != "pub-admin",
        "readonly" => matches!(perm, "login" | "ca-read" | "routes-read"),
        "nologin" => matches!(perm, "ca-read" | "routes-read"),
        _ => false,
    }
}

/// The three probes: (method, path, body, permission needed besides login)
const PROBES: &[(&str, &str, &str, &str)] = &[
    ("GET", "/api/v1/authorized", "", "login"),
    ("GET", "/api/v1/cas/ca", "", "ca-read"),
    ("POST", "/api/v1/cas/ca/routes", "{}", "routes-update"),
];

fn probe(d: &Daemon, proto: &Call) -> Vec<u16> {
    PROBES
        .iter()
        .map(|(m, p, b, _)| d.call(&Call { method: m.to_string(), path: p.to_string(), body: b.as_bytes().to_vec(), ..proto.clone() }).status)
        .collect()
}

fn expected_probe(role: Option<&str>) -> Vec<bool> {
    PROBES
        .iter()
        .map(|(_, _, _, perm)| match role {
            None => false,
            Some(r) => role_perm(r, "login") && role_perm(r, perm) && (*perm == "login" || role_perm(r, "ca-read")),
        })
        .collect()
}

fn served(status: u16) -> bool {
    status != 401 && status != 403 && status != 0
}

fn name_variants(n: &str) -> Vec<String> {
    let mut v = vec![n.to_string()];
    v.push(n.to_uppercase());
    v.push(n.to_lowercase());
    let mut c = n.chars();
    if let Some(f) = c.next() {
        let rest: String = c.collect();
        let swapped: String = if f.is_uppercase() { f.to_lowercase().collect() } else { f.to_uppercase().collect() };
        v.push(format!("{swapped}{rest}"));
        // fullwidth form of an ASCII first letter
        if f.is_ascii_alphanumeric() {
            if let Some(fw) = char::from_u32(f as u32 + 0xFEE0) {
                v.push(format!("{fw}{rest}"));
            }
        }
    }
    v.push(format!(" {n}"));
    v.push(format!("{n} "));
    v.push(format!("{n}\t"));
    v.push(n.nfd().collect());
    v.push(n.nfkc().collect());
    v.push(n.nfkd().collect());
    v
}

fn password_variants(p: &str) -> Vec<String> {
    let mut v = vec![p.to_string(), format!(" {p} "), p.to_uppercase(), format!("{p}x"), p[..p.len() - 1].to_string(), p.nfd().collect(), String::new()];
    let mut c = p.chars();
    if let Some(f) = c.next() {
        if f.is_ascii_alphanumeric() {
            if let Some(fw) = char::from_u32(f as u32 + 0xFEE0) {
                v.push(format!("{fw}{}", c.collect::<String>()));
            }
        }
    }
    v
}

fn login(d: &Daemon, name: &str, password: &str) -> (u16, Option<(String, String, String)>) {
    let basic = STANDARD.encode(format!("{name}:{password}"));
    let r = d.call(&Call { method: "POST".into(), path: "/auth/login".into(), authorization: Some(format!("Basic {basic}").into_bytes()), ..Default::default() });
    if r.status == 200 {
        let v: Value = serde_json::from_slice(&r.body).unwrap_or_default();
        let token = v["token"].as_str().unwrap_or("").to_string();
        let id = v["id"].as_str().unwrap_or("").to_string();
        let role = v["attributes"]["role"].as_str().unwrap_or("").to_string();
        (200, Some((token, id, role)))
    } else {
        (r.status, None)
    }
}

#[derive(Clone, Debug, serde::Serialize, serde::Deserialize)]
struct Case {
    part: String,
    what: String,
}

pub fn run(tier: &Tier, _args: &[String]) -> i32 {
    let mut out = Outcome::new("C20", tier, "model_checking");
    out.assumptions = vec![
        "user configuration: alice (admin), bob (readonly), carol (role without login), Dave (readwrite), two users whose names coincide after NFKC normalisation ('\u{fb01}ona' readonly, 'fiona' admin), 'zo\u{e9}' (readonly); system users operator (admin) and viewer (readonly); admin token 'secret'".into(),
        "a password matches if it equals the configured one after the trimming and NFKC normalisation that the hash generator (krillc config user) itself applies; user names must match the configured name exactly".into(),
        "token mutations: every truncation, every single-bit flip of the decoded bytes, every character replaced by each of 6 characters, a menu of re-encodings, every splice of the two valid tokens (head of one, tail of the other, at every character and byte position; thorough: every adjacent byte swap and byte removal), and a token issued by a second instance with its own key (also between two instances that were each restarted once); 'arbitrary strings' are a menu, not all strings".into(),
        "transports: the TCP path (no peer user) and the Unix-socket path (peer user in the request extensions, as the socket listener sets it); OpenID Connect is not exercised (needs an external provider)".into(),
    ];
    let root = crate::e1run::scratch_root();
    let _guard = crate::e1run::ScratchGuard(root.clone());
    let _ = std::fs::remove_dir_all(&root);
    std::fs::create_dir_all(&root).unwrap();
    let procs = 16usize;
    let thorough = tier.thorough;
    let results = workers(&root, "c20", procs, &mut out, |k| {
        let mut results: Vec<Value> = Vec::new();
        let _bodies = crate::checks::c16::build_api_fixture_pub().expect("fixture");
        let cfg = config();
        let d = Daemon::open(cfg.clone(), false).expect("daemon");
        let mut n = 0u64;
        let mut oc: BTreeMap<String, u64> = BTreeMap::new();
        let mut idx = 0usize;
        let bad = |part: &str, what: String, kind: &str, detail: String, results: &mut Vec<Value>| {
            results.push(json!({"case": Case{part: part.into(), what}, "kind": kind, "detail": detail}));
        };

        // ---- part 1: login matrix
        let mut names: BTreeSet<String> = BTreeSet::new();
        for u in USERS {
            for v in name_variants(u.name) {
                names.insert(v);
            }
        }
        for extra in ["mallory", "", "admin", "admin-token", "operator", "viewer", "alice:alice-pw"] {
            names.insert(extra.to_string());
        }
        let mut passwords: BTreeSet<String> = BTreeSet::new();
        for u in USERS {
            for v in password_variants(u.password) {
                passwords.insert(v);
            }
        }
        passwords.insert("secret".into());
        for name in &names {
            for pw in &passwords {
                idx += 1;
                if idx % procs != k {
                    continue;
                }
                if name.contains(':') {
                    continue; // not expressible in Basic auth
                }
                n += 1;
                let (status, got) = login(&d, name, pw);
                let user = USERS.iter().find(|u| u.name == name);
                let should = user.map(|u| norm(u.password) == norm(pw) && role_perm(u.role, "login")).unwrap_or(false);
                *oc.entry(format!("login expected {} -> {}", if should { "success" } else { "failure" }, status)).or_default() += 1;
                let what = format!("login name={name:?} password={pw:?}");
                match (&got, should) {
                    (Some((token, id, role)), false) => {
                        bad("login", what.clone(), "login-accepted", format!("login succeeded as id={id:?} role={role}; the presented name is {} and the password {}", if user.is_some() { "configured" } else { "not a configured user" }, if user.map(|u| norm(u.password) == norm(pw)).unwrap_or(false) { "matches" } else { "does not match" }), &mut results);
                        let _ = token;
                    }
                    (None, true) => bad("login", what.clone(), "login-refused", format!("a configured user with the matching password and a role permitting login was refused (status {status})"), &mut results),
                    (Some((token, id, role)), true) => {
                        let u = user.unwrap();
                        if id != u.name || role != u.role {
                            bad("login", what.clone(), "wrong-identity", format!("logged in as id={id:?} role={role}, configured identity is {:?} role={}", u.name, u.role), &mut results);
                        }
                        // the token acts with the role of the configured user
                        let got = probe(&d, &Call { bearer: Some(token.clone()), ..Default::default() });
                        let exp = expected_probe(Some(u.role));
                        for (i, (g, e)) in got.iter().zip(exp.iter()).enumerate() {
                            if served(*g) != *e {
                                bad("login", what.clone(), "wrong-rights", format!("token of {:?} (role {}): probe {:?} answered {g}, expected served={e}", u.name, u.role, PROBES[i].1), &mut results);
                            }
                        }
                    }
                    (None, false) => {}
                }
            }
        }

        // ---- part 2: token mutations
        let (_, alice) = login(&d, "alice", "alice-pw");
        let (_, bob) = login(&d, "bob", "bob-pw");
        let (Some((ta, _, _)), Some((tb, _, _))) = (alice, bob) else {
            results.push(json!({"machinery": "cannot log in alice/bob"}));
            return results;
        };
        // the valid ones behave
        for (t, role) in [(&ta, "admin"), (&tb, "readonly")] {
            let got = probe(&d, &Call { bearer: Some(t.clone()), ..Default::default() });
            let exp = expected_probe(Some(role));
            for (i, (g, e)) in got.iter().zip(exp.iter()).enumerate() {
                if served(*g) != *e {
                    bad("token", format!("valid token role={role}"), "wrong-rights", format!("probe {:?} answered {g}, expected served={e}", PROBES[i].1), &mut results);
                }
            }
        }
        let mut muts: Vec<(String, Vec<u8>)> = Vec::new();
        for (tname, t) in [("alice", &ta), ("bob", &tb)] {
            let raw = STANDARD.decode(t.as_bytes()).unwrap_or_default();
            for l in 0..t.len() {
                muts.push((format!("{tname}:truncate:{l}"), t.as_bytes()[..l].to_vec()));
            }
            for bit in 0..raw.len() * 8 {
                let mut m = raw.clone();
                m[bit / 8] ^= 0x80 >> (bit % 8);
                muts.push((format!("{tname}:bitflip:{bit}"), STANDARD.encode(&m).into_bytes()));
            }
            let subst: &[u8] = if thorough { b"A/+=a0Zz9-_" } else { b"A/+=a0" };
            for i in 0..t.len() {
                for s in subst {
                    if t.as_bytes()[i] != *s {
                        let mut m = t.as_bytes().to_vec();
                        m[i] = *s;
                        muts.push((format!("{tname}:subst:{i}:{}", *s as char), m));
                    }
                }
            }
            for (name, m) in [
                ("urlsafe", URL_SAFE.encode(&raw)),
                ("urlsafe-nopad", URL_SAFE_NO_PAD.encode(&raw)),
                ("nopad", STANDARD_NO_PAD.encode(&raw)),
                ("upper", t.to_uppercase()),
                ("lower", t.to_lowercase()),
                ("reversed", t.chars().rev().collect()),
                ("doubled", format!("{t}{t}")),
                ("plus-A", format!("{t}A")),
                ("plus-pad", format!("{t}=")),
                ("plus-pads", format!("{t}====")),
                ("quoted", format!("\"{t}\"")),
                ("percent", t.replace('+', "%2B").replace('/', "%2F").replace('=', "%3D")),
                ("hex", hex::encode(&raw)),
                ("double-b64", STANDARD.encode(t.as_bytes())),
                ("with-zero-tail", STANDARD.encode([raw.as_slice(), &[0u8]].concat())),
                ("without-last-byte", STANDARD.encode(&raw[..raw.len().saturating_sub(1)])),
                ("nonce-only", STANDARD.encode(&raw[..raw.len().min(12)])),
                ("json-session", STANDARD.encode(br#"{"start_time":0,"expires_in":null,"user_id":"alice","secrets":{"role":"admin"}}"#)),
                ("plain-json", r#"{"user_id":"alice","secrets":{"role":"admin"}}"#.to_string()),
                ("empty", String::new()),
                ("user-name", "alice".to_string()),
                ("user-pass", "alice:alice-pw".to_string()),
                ("basic-b64", STANDARD.encode("alice:alice-pw")),
            ] {
                muts.push((format!("{tname}:{name}"), m.into_bytes()));
            }
        }
        // spliced tokens: head of one valid token, tail of the other, at
        // every split point (characters and decoded bytes), both orders
        for (n1, t1, n2, t2) in [("alice", &ta, "bob", &tb), ("bob", &tb, "alice", &ta)] {
            for i in 1..t1.len().min(t2.len()) {
                let m = [&t1.as_bytes()[..i], &t2.as_bytes()[i..]].concat();
                muts.push((format!("{n1}+{n2}:splice-chars:{i}"), m));
            }
            let r1 = STANDARD.decode(t1.as_bytes()).unwrap_or_default();
            let r2 = STANDARD.decode(t2.as_bytes()).unwrap_or_default();
            for i in 1..r1.len().min(r2.len()) {
                let m = [&r1[..i], &r2[i..]].concat();
                muts.push((format!("{n1}+{n2}:splice-bytes:{i}"), STANDARD.encode(&m).into_bytes()));
            }
            if thorough {
                // every adjacent byte pair swapped, every byte removed
                for i in 0..r1.len().saturating_sub(1) {
                    let mut m = r1.clone();
                    m.swap(i, i + 1);
                    if m != r1 {
                        muts.push((format!("{n1}:swap-bytes:{i}"), STANDARD.encode(&m).into_bytes()));
                    }
                    let mut m = r1.clone();
                    m.remove(i);
                    muts.push((format!("{n1}:remove-byte:{i}"), STANDARD.encode(&m).into_bytes()));
                }
            }
        }
        // admin token variants
        for v in ["Secret", "SECRET", "secre", "secrett", "secret\u{0}", "c2VjcmV0", "\"secret\"", "secret=", "secret secret", "s3cret", "terces", "secret\u{e9}", "%73ecret"] {
            muts.push((format!("admin:{v}"), v.as_bytes().to_vec()));
        }
        for (name, token) in &muts {
            if token.as_slice() == ta.as_bytes() || token.as_slice() == tb.as_bytes() {
                continue; // the "mutation" is the genuine token itself
            }
            idx += 1;
            if idx % procs != k {
                continue;
            }
            n += 1;
            let mut auth = b"Bearer ".to_vec();
            auth.extend_from_slice(token);
            for (ti, transport) in [None, Some("stranger")].iter().enumerate() {
                let proto = Call { authorization: Some(auth.clone()), unix_user: transport.map(|s| s.to_string()), ..Default::default() };
                let got = probe(&d, &proto);
                *oc.entry(format!("mutated token transport {ti} -> {got:?}")).or_default() += 1;
                for (i, g) in got.iter().enumerate() {
                    if *g == 0 {
                        continue; // header not sendable
                    }
                    if served(*g) {
                        bad("token", format!("{name} transport={transport:?}"), "forged-token-accepted", format!("probe {:?} answered {g} for a mutated credential {:?}", PROBES[i].1, String::from_utf8_lossy(token)), &mut results);
                    }
                }
            }
        }
        // the verbatim admin token, and scheme variants that must not turn
        // something else into a credential
        if k == 0 {
            n += 1;
            let got = probe(&d, &Call { bearer: Some("secret".into()), ..Default::default() });
            if !got.iter().all(|g| served(*g)) {
                bad("token", "admin token".into(), "admin-token-refused", format!("{got:?}"), &mut results);
            }
            for a in ["Basic c2VjcmV0", "Token wrong", "Bearer", "Bearer ", "Negotiate secret2", "secret2"] {
                let got = probe(&d, &Call { authorization: Some(a.as_bytes().to_vec()), ..Default::default() });
                if got.iter().any(|g| served(*g)) {
                    bad("token", format!("authorization {a:?}"), "forged-token-accepted", format!("{got:?}"), &mut results);
                }
            }
            // no credentials at all
            let got = probe(&d, &Call::default());
            if got.iter().any(|g| served(*g)) {
                bad("token", "no credentials".into(), "anonymous-served", format!("{got:?}"), &mut results);
            }
        }

        // ---- part 3: token of another instance
        if k == 1 {
            n += 1;
            std::fs::create_dir_all("../second").unwrap();
            let here = std::env::current_dir().unwrap();
            std::env::set_current_dir("../second").unwrap();
            let _ = crate::checks::c16::build_api_fixture_pub().expect("fixture 2");
            let d2 = Daemon::open(config(), false).expect("daemon 2");
            let (_, t2) = login(&d2, "alice", "alice-pw");
            std::env::set_current_dir(&here).unwrap();
            match t2 {
                Some((t2, _, _)) => {
                    let got = probe(&d, &Call { bearer: Some(t2.clone()), ..Default::default() });
                    if got.iter().any(|g| served(*g)) {
                        bad("token", "token issued by another instance".into(), "forged-token-accepted", format!("{got:?}"), &mut results);
                    }
                    let got2 = probe(&d2, &Call { bearer: Some(ta.clone()), ..Default::default() });
                    if got2.iter().any(|g| served(*g)) {
                        bad("token", "this instance's token at another instance".into(), "forged-token-accepted", format!("{got2:?}"), &mut results);
                    }
                }
                None => results.push(json!({"machinery": "second instance: login failed"})),
            }
            drop(d2);
            let _ = std::fs::remove_dir_all("../second");
        }

        // ---- part 3b: two other instances, each restarted once (the
        // session key is then the one that was stored, not the one the first
        // start drew): neither accepts the other's token
        if k == 2 % procs {
            n += 1;
            let here = std::env::current_dir().unwrap();
            let mut restarted: Vec<(Daemon, String)> = Vec::new();
            let mut failed = false;
            for dir in ["../third", "../fourth"] {
                std::fs::create_dir_all(dir).unwrap();
                std::env::set_current_dir(dir).unwrap();
                let r = (|| -> Result<(Daemon, String), String> {
                    let _ = crate::checks::c16::build_api_fixture_pub()?;
                    let first = Daemon::open(config(), false)?;
                    let (_, t) = login(&first, "alice", "alice-pw");
                    if t.is_none() {
                        return Err("login at the first start failed".into());
                    }
                    drop(first);
                    let again = Daemon::open(config(), false)?;
                    let (_, t) = login(&again, "alice", "alice-pw");
                    let Some((t, _, _)) = t else { return Err("login after the restart failed".into()) };
                    Ok((again, t))
                })();
                std::env::set_current_dir(&here).unwrap();
                match r {
                    Ok(x) => restarted.push(x),
                    Err(e) => {
                        results.push(json!({"machinery": format!("restarted instance {dir}: {e}")}));
                        failed = true;
                    }
                }
            }
            if !failed && restarted.len() == 2 {
                for (i, j) in [(0usize, 1usize), (1, 0)] {
                    // (requests are served from the instance's own directory)
                    std::env::set_current_dir(["../third", "../fourth"][i]).unwrap();
                    let got = probe(&restarted[i].0, &Call { bearer: Some(restarted[j].1.clone()), ..Default::default() });
                    let own = probe(&restarted[i].0, &Call { bearer: Some(restarted[i].1.clone()), ..Default::default() });
                    std::env::set_current_dir(&here).unwrap();
                    if got.iter().any(|g| served(*g)) {
                        bad("token", "token issued by another instance, both instances restarted once".into(), "forged-token-accepted", format!("{got:?}"), &mut results);
                    }
                    if !own.iter().any(|g| served(*g)) {
                        bad("token", "an instance's own token after its restart".into(), "genuine-token-refused", format!("{own:?}"), &mut results);
                    }
                }
            }
            drop(restarted);
            let _ = std::fs::remove_dir_all("../third");
            let _ = std::fs::remove_dir_all("../fourth");
        }

        // ---- part 4: Unix-socket peer users
        let unix_names = ["operator", "viewer", "Operator", "OPERATOR", " operator", "operator ", "viewer\u{0}", "root", "", "admin", "alice", "\u{ff4f}perator", "operator\n"];
        for name in unix_names {
            idx += 1;
            if idx % procs != k {
                continue;
            }
            n += 1;
            let role = match name {
                "operator" => Some("admin"),
                "viewer" => Some("readonly"),
                _ => None,
            };
            for bearer in [None, Some("wrong-token")] {
                let got = probe(&d, &Call { unix_user: Some(name.to_string()), bearer: bearer.map(|s| s.to_string()), ..Default::default() });
                let exp = expected_probe(role);
                for (i, (g, e)) in got.iter().zip(exp.iter()).enumerate() {
                    if served(*g) != *e {
                        bad("unix", format!("peer user {name:?} bearer={bearer:?}"), if *e { "mapped-user-refused" } else { "unmapped-user-served" }, format!("probe {:?} answered {g}, expected served={e}", PROBES[i].1), &mut results);
                    }
                }
            }
        }

        // ---- part 5: the audit log names the authenticated identity
        if k == 2 {
            let body = br#"{"added":[{"asn":65002,"prefix":"10.0.2.0/24","max_length":24}],"removed":[]}"#;
            let body2 = br#"{"added":[],"removed":[{"asn":65002,"prefix":"10.0.2.0/24","max_length":24}]}"#;
            for (who, proto) in [
                ("alice", Call { bearer: Some(ta.clone()), ..Default::default() }),
                ("admin-token", Call { bearer: Some("secret".into()), ..Default::default() }),
                ("operator", Call { unix_user: Some("operator".into()), ..Default::default() }),
            ] {
                n += 1;
                for b in [body.as_slice(), body2.as_slice()] {
                    let r = d.call(&Call { method: "POST".into(), path: "/api/v1/cas/ca/routes".into(), body: b.to_vec(), ..proto.clone() });
                    if r.status != 200 {
                        bad("audit", format!("command by {who}"), "command-refused", format!("status {} {}", r.status, r.text()), &mut results);
                    }
                }
                let h = d.get("/api/v1/cas/ca/history/commands/2/0");
                let v: Value = serde_json::from_slice(&h.body).unwrap_or_default();
                let all = d.get("/api/v1/cas/ca/history/commands/1000/0");
                let va: Value = serde_json::from_slice(&all.body).unwrap_or_default();
                let _ = v;
                let actors: Vec<String> = va["commands"].as_array().map(|a| a.iter().filter_map(|c| c["actor"].as_str().map(|s| s.to_string())).collect()).unwrap_or_default();
                let last2: Vec<&String> = actors.iter().rev().take(2).collect();
                if last2.len() != 2 || last2.iter().any(|a| a.as_str() != who && a.as_str() != format!("user:{who}")) {
                    bad("audit", format!("command by {who}"), "wrong-actor", format!("the last two audit records name {last2:?}"), &mut results);
                }
            }
        }
        drop(d);
        results.push(json!({"count": n, "outcomes": oc}));
        results
    });
    let mut total = 0u64;
    let mut outcomes: BTreeMap<String, u64> = BTreeMap::new();
    let mut seen = BTreeSet::new();
    for r in results {
        if let Some(n) = r.get("count") {
            total += n.as_u64().unwrap_or(0);
            if let Some(o) = r["outcomes"].as_object() {
                for (k, v) in o {
                    *outcomes.entry(k.clone()).or_default() += v.as_u64().unwrap_or(0);
                }
            }
            continue;
        }
        let Ok(case) = serde_json::from_value::<Case>(r["case"].clone()) else { continue };
        let kind = r["kind"].as_str().unwrap_or("").to_string();
        let detail = r["detail"].as_str().unwrap_or("").to_string();
        let class = format!("{kind}|{}|{}", case.part, crate::e1::normalize(&detail).chars().take(120).collect::<String>());
        if !seen.insert(class) {
            continue;
        }
        out.findings.push(Finding {
            signature: format!("{kind}|{} @ {} {}", crate::e1::normalize(&detail), case.part, case.what),
            text: format!("{kind}: {detail}; {}: {}", case.part, case.what),
            replay: json!({"case": case, "kind": kind, "detail": detail}),
        });
    }
    // keep the outcome table small
    let mut compact: BTreeMap<String, u64> = BTreeMap::new();
    for (k, v) in outcomes {
        let key = if k.starts_with("mutated token") { "mutated token -> (per-probe statuses)".to_string() } else { k };
        *compact.entry(key).or_default() += v;
    }
    out.coverage = json!({
        "evaluations": total,
        "distinct_nontrivial": total,
        "states": 2,
        "transitions": total,
        "traces_validated_against_impl": total,
        "rule": "login: every (name variant x password variant) for 7 configured users (exact, case variants, surrounding whitespace, fullwidth first letter, NFD/NFKC/NFKD forms) and unknown names; tokens: every truncation, single-bit flip, single-character substitution and the re-encoding menu of two valid session tokens, the admin token variants, a token from a second instance, each tried on three permission-requiring probes over both transports; system users: name variants of the mapped users; audit actor for commands by a session user, the admin token and a system user",
        "outcomes": compact,
        "exhaustive": true,
    });
    out.finish()
}

fn workers(root: &std::path::Path, tag: &str, procs: usize, out: &mut Outcome, f: impl Fn(usize) -> Vec<Value>) -> Vec<Value> {
    use std::io::Write;
    let mut pids = Vec::new();
    for k in 0..procs {
        let dir = root.join(format!("{tag}k{k}")).join("w");
        std::fs::create_dir_all(&dir).unwrap();
        let outf = root.join(format!("{tag}k{k}.json"));
        let _ = std::io::stdout().flush();
        let pid = unsafe { libc::fork() };
        if pid == 0 {
            std::env::set_current_dir(&dir).unwrap();
            let r = std::panic::catch_unwind(std::panic::AssertUnwindSafe(|| f(k)));
            let results = match r {
                Ok(v) => v,
                Err(p) => vec![json!({"machinery": format!("worker panicked: {}", crate::e1::panic_message(&p))})],
            };
            let _ = std::fs::write(&outf, serde_json::to_vec(&results).unwrap());
            unsafe { libc::_exit(0) };
        }
        pids.push((pid, outf, dir));
    }
    let mut all = Vec::new();
    for (pid, outf, dir) in pids {
        let mut st = 0;
        unsafe { libc::waitpid(pid, &mut st, 0) };
        let _ = std::fs::remove_dir_all(dir.parent().unwrap());
        let Ok(bytes) = std::fs::read(&outf) else {
            out.machinery_errors.push(format!("{tag}: worker produced no result (status {st:#x})"));
            continue;
        };
        let results: Vec<Value> = serde_json::from_slice(&bytes).unwrap_or_default();
        for r in results {
            if let Some(m) = r.get("machinery") {
                out.machinery_errors.push(format!("{tag}: {m}"));
            } else {
                all.push(r);
            }
        }
    }
    all
}
