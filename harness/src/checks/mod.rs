pub mod c01;
