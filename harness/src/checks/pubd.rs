//! C10 — Publication protocol: atomic deltas, hash checks, publisher
//! isolation. C11 — RRDP and rsync views are consistent for every client at
//! every instant.

use std::collections::{BTreeMap, BTreeSet};
use std::path::Path;
use std::sync::atomic::Ordering;

use bytes::Bytes;
use krill::config::RrdpUpdatesConfig;
use rpki::ca::publication::Base64;

use crate::clock;
use crate::e1::{Header, Model};
use crate::e1run::{self, Config, Spec};
use crate::ops::{Op, OpOutcome, PubEl, pub_content};
use crate::report::{Outcome, Tier};
use crate::world::{World, WorldCfg, pub_h};

const BASE: &str = "rsync://localhost/repo/";

/// RFC 3986: scheme and host are case-insensitive.
fn canon_uri(u: &str) -> String {
    match u.find("://") {
        Some(i) => {
            let rest = &u[i + 3..];
            let (host, path) = match rest.find('/') {
                Some(j) => (&rest[..j], &rest[j..]),
                None => (rest, ""),
            };
            format!("{}://{}{}", u[..i].to_ascii_lowercase(), host.to_ascii_lowercase(), path)
        }
        None => u.to_string(),
    }
}

fn hash_hex(b: &[u8]) -> String {
    Base64::from_content(b).to_hash().to_string()
}

type PubMap = BTreeMap<String, Bytes>;

#[derive(Clone, Debug, Default)]
pub struct RefRepo {
    /// publisher -> (canonical uri -> content): current + staged
    pub pubs: BTreeMap<String, PubMap>,
    /// the same at the time of the last RRDP update (= snapshot content)
    pub at_last_update: BTreeMap<String, PubMap>,
    primed: bool,
}

fn base_of(publisher: &str) -> String {
    if publisher == "ta" { BASE.to_string() } else { format!("{BASE}{publisher}/") }
}

impl RefRepo {
    fn prime(&mut self, w: &World) {
        if self.primed {
            return;
        }
        self.primed = true;
        let rm = w.krill.repo_manager();
        for p in rm.publishers().unwrap_or_default() {
            let mut m = PubMap::new();
            if let Ok(d) = rm.get_publisher_details(p.clone()) {
                for f in d.current_files {
                    m.insert(canon_uri(&f.uri.to_string()), f.base64.to_bytes());
                }
            }
            self.pubs.insert(p.to_string(), m);
        }
        self.at_last_update = self.pubs.clone();
    }

    /// Decides a delta as the property states it; applies it if acceptable.
    fn delta(&mut self, publisher: &str, elems: &[PubEl]) -> Result<(), String> {
        let Some(cur) = self.pubs.get(publisher) else {
            return Err("unknown publisher".into());
        };
        let base = base_of(publisher);
        let mut next = cur.clone();
        let mut seen = BTreeSet::new();
        for el in elems {
            let (uri, kind) = match el {
                PubEl::Publish { uri, .. } => (uri, "publish"),
                PubEl::Update { uri, .. } => (uri, "update"),
                PubEl::Withdraw { uri, .. } => (uri, "withdraw"),
            };
            let cu = canon_uri(uri);
            if !seen.insert(cu.clone()) {
                return Err("UNDETERMINED: uri twice in one delta".into());
            }
            if !cu.starts_with(&base) || cu.len() == base.len() {
                return Err(format!("{kind} of {cu} outside {base}"));
            }
            // dot segments would escape the publisher's space
            if cu.split('/').any(|seg| seg == ".." || seg == ".") {
                return Err(format!("{kind} of {cu}: dot segment"));
            }
            match el {
                PubEl::Publish { content, .. } => {
                    if cur.contains_key(&cu) {
                        return Err(format!("publish of existing {cu}"));
                    }
                    next.insert(cu, pub_content(*content));
                }
                PubEl::Update { content, old, .. } => {
                    match (cur.get(&cu), old) {
                        (Some(have), Some(o)) if have == &pub_content(*o) => {
                            next.insert(cu, pub_content(*content));
                        }
                        _ => return Err(format!("update of {cu}: absent or hash mismatch")),
                    }
                }
                PubEl::Withdraw { old, .. } => match (cur.get(&cu), old) {
                    (Some(have), Some(o)) if have == &pub_content(*o) => {
                        next.remove(&cu);
                    }
                    _ => return Err(format!("withdraw of {cu}: absent or hash mismatch")),
                },
            }
        }
        self.pubs.insert(publisher.to_string(), next);
        Ok(())
    }
}

fn list_of(w: &World, p: &str) -> Result<BTreeMap<String, String>, String> {
    let l = w.krill.repo_manager().list(&pub_h(p)).map_err(|e| e.to_string())?;
    let mut m = BTreeMap::new();
    for e in l.elements() {
        if m.insert(canon_uri(&e.uri().to_string()), e.hash().to_string()).is_some() {
            return Err(format!("list reply of {p} names {} twice (up to scheme/host case)", e.uri()));
        }
    }
    Ok(m)
}

/// C10 oracle: outcome of the op vs reference, then lists vs reference.
fn check_c10(
    r: &mut RefRepo, w: &World, op: &Op, out: &OpOutcome, hdr: &Header,
) -> Vec<(String, String)> {
    let mut v = Vec::new();
    match op {
        Op::PubDelta { publisher, elems } => {
            let before = r.pubs.clone();
            match r.delta(publisher, elems) {
                Ok(()) => {
                    hdr.counters[0].fetch_add(1, Ordering::Relaxed);
                    if !out.ok {
                        r.pubs = before;
                        v.push((
                            "delta-wrongly-refused".into(),
                            format!("delta of {publisher} should apply but was refused: {}", out.err.clone().unwrap_or_default().replace('\n', " ")),
                        ));
                    }
                }
                Err(why) if why.starts_with("UNDETERMINED") => {
                    r.pubs = before;
                    if out.ok {
                        // follow the implementation, only atomicity matters:
                        // resynchronise the reference from the list reply
                        if let Ok(l) = list_of(w, publisher) {
                            let _ = l;
                        }
                    }
                }
                Err(why) => {
                    hdr.counters[1].fetch_add(1, Ordering::Relaxed);
                    if out.ok {
                        v.push((
                            "delta-wrongly-accepted".into(),
                            format!("delta of {publisher} accepted although: {why}"),
                        ));
                    }
                }
            }
        }
        Op::RemovePublisher { publisher } if out.ok => {
            r.pubs.remove(publisher);
        }
        Op::AddCa { ca } if out.ok => {
            r.pubs.insert(ca.clone(), PubMap::new());
        }
        Op::AddPublisher { ca } if out.ok => {
            r.pubs.entry(ca.clone()).or_default();
        }
        _ => {}
    }
    // list replies are exactly the reference (current + not yet in RRDP)
    let rm = w.krill.repo_manager();
    let mut live: Vec<String> = rm.publishers().unwrap_or_default().iter().map(|p| p.to_string()).collect();
    live.sort();
    let want: Vec<String> = r.pubs.keys().cloned().collect();
    if live != want {
        v.push(("publishers".into(), format!("publishers are {live:?}, expected {want:?}")));
    }
    for (p, m) in &r.pubs {
        match list_of(w, p) {
            Err(e) => v.push(("list".into(), format!("{p}: {e}"))),
            Ok(l) => {
                let want: BTreeMap<String, String> =
                    m.iter().map(|(u, b)| (u.clone(), hash_hex(b))).collect();
                if l != want {
                    let only_l: Vec<_> = l.keys().filter(|k| !want.contains_key(*k)).collect();
                    let only_w: Vec<_> = want.keys().filter(|k| !l.contains_key(*k)).collect();
                    let diff: Vec<_> = l.iter().filter(|(k, h)| want.get(*k).map(|x| x != *h).unwrap_or(false)).map(|(k, _)| k).collect();
                    v.push((
                        "list-differs".into(),
                        format!("list reply of {p} differs from the reference: extra {only_l:?}, missing {only_w:?}, other content {diff:?} (after {})", op.compact()),
                    ));
                }
            }
        }
    }
    v
}

//------------ C11: RRDP client simulation ------------------------------------

#[derive(Clone, Debug, Default)]
pub struct Client {
    /// (session, serial) -> snapshot content the client had at that point
    seen: BTreeMap<(String, u64), BTreeMap<String, Bytes>>,
    last_session: Option<String>,
    last_serial: u64,
    /// when each (session, serial) was first observed (virtual epoch)
    created: BTreeMap<(String, u64), i64>,
}

fn rrdp_dir() -> std::path::PathBuf {
    Path::new("repo").join("rrdp")
}

fn read_rel(w: &World, uri: &str) -> Result<Vec<u8>, String> {
    let base = w.config.testbed().unwrap().publication_server_uris().rrdp_base_uri.to_string();
    let rel = uri.strip_prefix(&base).ok_or_else(|| format!("{uri} outside {base}"))?;
    std::fs::read(rrdp_dir().join(rel)).map_err(|e| format!("file for {uri} missing: {e}"))
}

fn check_c11(
    r: &mut RefRepo,
    client: &mut Client,
    w: &World,
    op: &Op,
    out: &OpOutcome,
    cfg: &RrdpUpdatesConfig,
    hdr: &Header,
) -> Vec<(String, String)> {
    let mut v = Vec::new();
    // which ops write the repository?
    let wrote = matches!(op, Op::RrdpUpdate | Op::SessionReset) && out.ok;
    // (objects, not publishers: removing a publisher that has nothing
    // published stages nothing)
    let flat = |m: &BTreeMap<String, PubMap>| -> PubMap { m.values().flat_map(|x| x.iter().map(|(k, v)| (k.clone(), v.clone()))).collect() };
    let staged_before = flat(&r.pubs) != flat(&r.at_last_update);
    let notif_bytes = match std::fs::read(rrdp_dir().join("notification.xml")) {
        Ok(b) => b,
        Err(e) => return vec![("notification".into(), format!("cannot read: {e}"))],
    };
    let mut notif = match rpki::rrdp::NotificationFile::parse(notif_bytes.as_slice()) {
        Ok(n) => n,
        Err(e) => return vec![("notification".into(), format!("does not parse: {e}"))],
    };
    let session = notif.session_id().to_string();
    let serial = notif.serial();
    // --- session / serial progression
    match op {
        Op::SessionReset if out.ok => {
            if Some(&session) == client.last_session.as_ref() {
                v.push(("session".into(), "session id unchanged by an explicit reset".into()));
            }
            if serial != 1 || !notif.deltas().is_empty() {
                v.push(("session".into(), format!("after a reset: serial {serial}, {} deltas (expected serial 1, none)", notif.deltas().len())));
            }
            // staged changes stay staged: the new session starts from the
            // current snapshot
        }
        Op::RrdpUpdate if out.ok => {
            if let Some(ls) = &client.last_session {
                if ls != &session {
                    v.push(("session".into(), "session changed without a reset".into()));
                }
                // exactly one step per update that publishes a change; an
                // update of staged elements that cancel out may or may not
                // produce a (empty) delta
                let ok = if staged_before {
                    serial == client.last_serial + 1
                } else {
                    serial == client.last_serial || serial == client.last_serial + 1
                };
                if !ok {
                    v.push(("serial".into(), format!("serial went {} -> {serial} (staged changes: {staged_before})", client.last_serial)));
                }
            }
            if staged_before {
                r.at_last_update = r.pubs.clone();
            }
        }
        _ => {
            if let Some(ls) = &client.last_session
                && (ls != &session || client.last_serial != serial)
            {
                v.push(("serial".into(), format!("session/serial changed by {}", op.compact())));
            }
        }
    }
    let _ = wrote;
    client.last_session = Some(session.clone());
    client.last_serial = serial;
    // --- snapshot exists with the stated hash and equals the publication
    // state at its serial
    let snap_bytes = match read_rel(w, notif.snapshot().uri().as_str()) {
        Ok(b) => b,
        Err(e) => return vec![("snapshot".into(), e)],
    };
    if !notif.snapshot().hash().matches(&snap_bytes) {
        v.push(("snapshot".into(), "snapshot hash differs from the notification".into()));
    }
    let snap = match rpki::rrdp::Snapshot::parse(snap_bytes.as_slice()) {
        Ok(s) => s,
        Err(e) => return vec![("snapshot".into(), format!("does not parse: {e}"))],
    };
    if snap.session_id().to_string() != session || snap.serial() != serial {
        v.push(("snapshot".into(), "snapshot session/serial differ from the notification".into()));
    }
    let mut current: BTreeMap<String, Bytes> = BTreeMap::new();
    for el in snap.into_elements() {
        let (uri, data) = el.unpack();
        current.insert(canon_uri(&uri.to_string()), data);
    }
    let mut want: BTreeMap<String, Bytes> = BTreeMap::new();
    for m in r.at_last_update.values() {
        for (u, b) in m {
            want.insert(u.clone(), b.clone());
        }
    }
    if current != want {
        let only_s: Vec<_> = current.keys().filter(|k| !want.contains_key(*k)).collect();
        let only_w: Vec<_> = want.keys().filter(|k| !current.contains_key(*k)).collect();
        v.push((
            "snapshot-content".into(),
            format!("snapshot at serial {serial} differs from the publication state: extra {only_s:?}, missing {only_w:?}"),
        ));
    }
    // --- deltas: exist, hashes, contiguous run ending at serial, <= max
    notif.sort_deltas();
    let deltas = notif.deltas().to_vec();
    let mut parsed: BTreeMap<u64, rpki::rrdp::Delta> = BTreeMap::new();
    for d in &deltas {
        match read_rel(w, d.uri().as_str()) {
            Err(e) => v.push(("delta-file".into(), e)),
            Ok(b) => {
                if !d.hash().matches(&b) {
                    v.push(("delta-file".into(), format!("hash of delta {} differs", d.serial())));
                }
                match rpki::rrdp::Delta::parse(b.as_slice()) {
                    Ok(p) => {
                        if p.serial() != d.serial() || p.session_id().to_string() != session {
                            v.push(("delta-file".into(), format!("delta {} has other serial/session inside", d.serial())));
                        }
                        parsed.insert(d.serial(), p);
                    }
                    Err(e) => v.push(("delta-file".into(), format!("delta {} does not parse: {e}", d.serial()))),
                }
            }
        }
    }
    if !deltas.is_empty() {
        let serials: Vec<u64> = deltas.iter().map(|d| d.serial()).collect();
        let contiguous = serials.windows(2).all(|w| w[1] == w[0] + 1);
        if !contiguous || *serials.last().unwrap() != serial {
            v.push(("delta-run".into(), format!("deltas {serials:?} are not a contiguous run ending at serial {serial}")));
        }
    }
    hdr.counters[2].fetch_add(deltas.len() as u64, Ordering::Relaxed);
    if std::env::var("VERIF_DEBUG").is_ok() {
        eprintln!(
            "   [c11] after {}: serial {serial}, deltas {:?}",
            op.compact(),
            deltas.iter().map(|d| d.serial()).collect::<Vec<_>>()
        );
    }
    // documented retention rule: the newest min_nr deltas and everything
    // younger than min_seconds is always kept; beyond those never more than
    // max_nr in total. Evaluated when a truncation has just happened.
    client.created.entry((session.clone(), serial)).or_insert(clock::now_epoch());
    let max_nr = cfg.rrdp_delta_files_max_nr;
    if matches!(op, Op::RrdpUpdate) && deltas.len() > max_nr {
        let now = clock::now_epoch();
        let mut newest_first: Vec<u64> = deltas.iter().map(|d| d.serial()).collect();
        newest_first.sort_by(|a, b| b.cmp(a));
        let mandatory = newest_first
            .iter()
            .enumerate()
            .filter(|(i, s)| {
                // (the implementation keeps min_nr *previous* deltas plus the
                // new one; that reading of "always keep min_nr" is tolerated)
                *i < cfg.rrdp_delta_files_min_nr + 1
                    || client
                        .created
                        .get(&(session.clone(), **s))
                        .map(|t| now - *t < cfg.rrdp_delta_files_min_seconds as i64)
                        .unwrap_or(true)
            })
            .count();
        if deltas.len() > mandatory.max(max_nr) {
            v.push((
                "delta-cap".into(),
                format!(
                    "{} deltas retained; configured maximum {max_nr}; only {mandatory} of them are protected by min_nr {} / min_seconds {}",
                    deltas.len(), cfg.rrdp_delta_files_min_nr, cfg.rrdp_delta_files_min_seconds
                ),
            ));
        }
    }
    // --- every earlier serial of this session catches up via the chain
    for ((sess, ser), content) in &client.seen {
        if sess != &session || *ser >= serial {
            continue;
        }
        let chain: Vec<u64> = ((*ser + 1)..=serial).collect();
        if !chain.iter().all(|s| parsed.contains_key(s)) {
            continue; // chain not contiguous from that serial: snapshot fallback
        }
        hdr.counters[3].fetch_add(1, Ordering::Relaxed);
        let mut state = content.clone();
        let mut ok = true;
        for s in chain {
            for el in parsed[&s].elements() {
                use rpki::rrdp::DeltaElement as DE;
                match el {
                    DE::Publish(p) => {
                        let u = canon_uri(&p.uri().to_string());
                        if state.insert(u.clone(), p.data().clone()).is_some() {
                            v.push(("delta-apply".into(), format!("delta {s} publishes existing {u}")));
                            ok = false;
                        }
                    }
                    DE::Update(p) => {
                        let u = canon_uri(&p.uri().to_string());
                        match state.get(&u) {
                            Some(old) if p.hash().matches(old) => {
                                state.insert(u, p.data().clone());
                            }
                            _ => {
                                v.push(("delta-apply".into(), format!("delta {s} updates {u} which the client does not hold with that hash")));
                                ok = false;
                            }
                        }
                    }
                    DE::Withdraw(p) => {
                        let u = canon_uri(&p.uri().to_string());
                        match state.get(&u) {
                            Some(old) if p.hash().matches(old) => {
                                state.remove(&u);
                            }
                            _ => {
                                v.push(("delta-apply".into(), format!("delta {s} withdraws {u} which the client does not hold with that hash")));
                                ok = false;
                            }
                        }
                    }
                }
            }
        }
        if ok && state != current {
            v.push((
                "delta-chain".into(),
                format!("a client at serial {ser} applying deltas up to {serial} does not arrive at the snapshot"),
            ));
        }
    }
    client.seen.insert((session, serial), current.clone());
    // --- rsync tree equals the snapshot after every successful write
    let mut disk: BTreeMap<String, Bytes> = BTreeMap::new();
    let cur_dir = Path::new("repo").join("rsync").join("current");
    fn walk(dir: &Path, rel: &str, out: &mut BTreeMap<String, Bytes>) {
        if let Ok(rd) = std::fs::read_dir(dir) {
            for e in rd.flatten() {
                let name = e.file_name().to_string_lossy().to_string();
                let p = e.path();
                if p.is_dir() {
                    walk(&p, &format!("{rel}{name}/"), out);
                } else if let Ok(b) = std::fs::read(&p) {
                    out.insert(format!("{BASE}{rel}{name}"), Bytes::from(b));
                }
            }
        }
    }
    walk(&cur_dir, "", &mut disk);
    if disk != current {
        let only_d: Vec<_> = disk.keys().filter(|k| !current.contains_key(*k)).collect();
        let only_s: Vec<_> = current.keys().filter(|k| !disk.contains_key(*k)).collect();
        v.push((
            "rsync-tree".into(),
            format!("rsync/current differs from the snapshot: only on disk {only_d:?}, only in snapshot {only_s:?}"),
        ));
    }
    // no left-over directories that would block the next switch
    let _ = clock::now_epoch();
    v
}

//------------ model -----------------------------------------------------------

#[derive(Clone)]
pub struct PubdModel {
    pub reference: RefRepo,
    pub client: Client,
    pub c11: bool,
    pub full: bool,
    pub rrdp_cfg: RrdpUpdatesConfig,
    /// every accepted delta is followed by the RRDP update at once (dense
    /// histories for the retention rules)
    pub auto_update: bool,
}

fn uri(p: &str, f: &str) -> String {
    format!("{BASE}{p}/{f}")
}

impl Model for PubdModel {
    fn alphabet(&mut self, w: &World, _depth: usize, _path: &[Op]) -> Vec<Op> {
        self.reference.prime(w);
        let a = || "alice".to_string();
        let one = |p: &str, el: PubEl| Op::PubDelta { publisher: p.to_string(), elems: vec![el] };
        let mut ops = vec![
            one("alice", PubEl::Publish { uri: uri("alice", "a.txt"), content: 1 }),
            one("alice", PubEl::Update { uri: uri("alice", "a.txt"), content: 2, old: Some(1) }),
            // a second update of the same object (two requests between two
            // RRDP updates must merge into one element against the snapshot)
            one("alice", PubEl::Update { uri: uri("alice", "a.txt"), content: 3, old: Some(2) }),
            one("alice", PubEl::Withdraw { uri: uri("alice", "a.txt"), old: Some(1) }),
            one("alice", PubEl::Withdraw { uri: uri("alice", "a.txt"), old: Some(2) }),
            Op::PubDelta {
                publisher: a(),
                elems: vec![
                    PubEl::Publish { uri: uri("alice", "b.txt"), content: 1 },
                    PubEl::Update { uri: uri("alice", "a.txt"), content: 2, old: None },
                ],
            },
            Op::PubDelta {
                publisher: a(),
                elems: vec![
                    PubEl::Publish { uri: uri("alice", "b.txt"), content: 2 },
                    PubEl::Withdraw { uri: uri("alice", "a.txt"), old: Some(1) },
                ],
            },
            one("bob", PubEl::Publish { uri: uri("bob", "a.txt"), content: 1 }),
            Op::RrdpUpdate,
        ];
        if !self.c11 || self.full {
            ops.extend([
                // isolation: other publisher's space, look-alike handles, case
                one("alice", PubEl::Publish { uri: uri("alice2", "x.txt"), content: 1 }),
                one("alice", PubEl::Publish { uri: uri("bob", "x.txt"), content: 1 }),
                one("alice", PubEl::Withdraw { uri: uri("bob", "a.txt"), old: Some(1) }),
                one("alice", PubEl::Update { uri: uri("bob", "a.txt"), content: 2, old: Some(1) }),
                one("alice2", PubEl::Publish { uri: uri("alice2", "a.txt"), content: 1 }),
                one("alice2", PubEl::Publish { uri: uri("alice", "a.txt"), content: 2 }),
                one("alice", PubEl::Publish { uri: format!("{BASE}alice"), content: 1 }),
                one("alice", PubEl::Publish { uri: "RSYNC://LOCALHOST/repo/alice/a.txt".into(), content: 2 }),
                one("alice", PubEl::Withdraw { uri: "rsync://LocalHost/repo/alice/a.txt".into(), old: Some(1) }),
                one("alice", PubEl::Publish { uri: "rsync://localhost/repo/alice/../bob/y.txt".into(), content: 1 }),
                Op::RemovePublisher { publisher: a() },
                Op::AddPublisher { ca: a() },
                Op::RemovePublisher { publisher: "bob".into() },
            ]);
        }
        if self.auto_update {
            return vec![
                one("alice", PubEl::Publish { uri: uri("alice", "a.txt"), content: 1 }),
                one("alice", PubEl::Update { uri: uri("alice", "a.txt"), content: 2, old: Some(1) }),
                one("alice", PubEl::Update { uri: uri("alice", "a.txt"), content: 1, old: Some(2) }),
                one("bob", PubEl::Publish { uri: uri("bob", "a.txt"), content: 1 }),
                Op::Tick { secs: 1300 },
                Op::Tick { secs: 7300 },
                Op::SessionReset,
            ];
        }
        if self.c11 {
            ops.push(Op::SessionReset);
            ops.push(Op::Tick { secs: 2 });
            ops.push(Op::Tick { secs: 61 });
            if self.full {
                ops.push(Op::Tick { secs: 7200 });
            }
        }
        ops
    }

    fn apply(&mut self, w: &mut World, op: &Op) -> OpOutcome {
        // no pump: the RRDP update is an operation of its own
        w.apply(op)
    }


    fn check(
        &mut self, w: &mut World, path: &[Op], out: &OpOutcome, hdr: &Header,
    ) -> Vec<(String, String)> {
        let op = path.last().unwrap();
        if let Some(f) = &out.fatal {
            return vec![("fatal".into(), f.clone())];
        }
        let mut v = check_c10(&mut self.reference, w, op, out, hdr);
        if self.c11 {
            v.extend(check_c11(&mut self.reference, &mut self.client, w, op, out, &self.rrdp_cfg, hdr));
            if self.auto_update && matches!(op, Op::PubDelta { .. }) && out.ok && v.is_empty() {
                let o2 = w.apply(&Op::RrdpUpdate);
                v.extend(check_c11(&mut self.reference, &mut self.client, w, &Op::RrdpUpdate, &o2, &self.rrdp_cfg, hdr));
            }
        }
        v
    }

    fn fingerprint(&mut self, w: &World) -> (u64, u64) {
        // publication state only: lists, staged?, number of deltas, clock,
        // which serials the simulated client remembers (relative)
        let mut s = String::new();
        for (p, m) in &self.reference.pubs {
            s.push_str(p);
            for (u, b) in m {
                s.push_str(&format!("{u}={};", hash_hex(b)));
            }
        }
        s.push('|');
        for (p, m) in &self.reference.at_last_update {
            s.push_str(p);
            for (u, b) in m {
                s.push_str(&format!("{u}={};", hash_hex(b)));
            }
        }
        // krill's own view of the content: snapshot, retained deltas and the
        // *kind* of every staged element (reloaded from the log; session,
        // serial, randoms, times and blobs masked)
        if let Ok(store) = krill::commons::eventsourcing::WalStore::<
            krill::server::pubd::RepositoryContent,
        >::create(w.krill.storage(), krill::constants::PUBSERVER_CONTENT_NS)
        {
            let h: rpki::ca::idexchange::MyHandle =
                std::str::FromStr::from_str(krill::constants::PUBSERVER_DFLT).unwrap();
            if let Ok(c) = store.get_latest(&h) {
                let v = serde_json::to_value(c.as_ref()).unwrap_or_default();
                s.push_str(&crate::fingerprint::mask(&v).to_string());
            }
        }
        if self.c11 {
            let serial = self.client.last_serial;
            let rel: Vec<i64> = self
                .client
                .seen
                .keys()
                .filter(|k| Some(&k.0) == self.client.last_session.as_ref())
                .map(|k| serial as i64 - k.1 as i64)
                .collect();
            s.push_str(&format!("|seen{rel:?}|clock{}", clock::offset()));
            if let Ok(st) = w.krill.repo_manager().repo_stats() {
                let v = serde_json::to_value(&st).unwrap_or_default();
                s.push_str(&format!("|serial-known:{}", v.get("serial").is_some()));
            }
            // delta ages matter for truncation: include the notification's
            // delta count
            if let Ok(b) = std::fs::read(rrdp_dir().join("notification.xml"))
                && let Ok(n) = rpki::rrdp::NotificationFile::parse(b.as_slice())
            {
                s.push_str(&format!("|deltas{}", n.deltas().len()));
            }
        }
        crate::fingerprint::h128(s.as_bytes())
    }
}

pub fn build_pubd(rrdp: RrdpUpdatesConfig) -> Result<World, String> {
    let cfg = WorldCfg { rrdp, ..WorldCfg::default() };
    let w = World::new(cfg).map_err(|e| e.to_string())?;
    for name in ["alice", "alice2", "bob"] {
        w.add_ca(name).map_err(|e| e.to_string())?;
    }
    w.pump()?;
    w.krill.repo_manager().update_rrdp_if_needed().map_err(|e| e.to_string())?;
    Ok(w)
}

/// Same, with a large object published by alice2 so that the snapshot is
/// much bigger than any number of the small deltas of the alphabet.
pub fn build_pubd_ballast(rrdp: RrdpUpdatesConfig) -> Result<World, String> {
    let mut w = build_pubd(rrdp)?;
    let o = w.apply(&Op::PubDelta {
        publisher: "alice2".into(),
        elems: vec![PubEl::Publish { uri: format!("{BASE}alice2/ballast.bin"), content: 200 }],
    });
    if !o.ok {
        return Err(format!("ballast: {:?}", o.err));
    }
    w.krill.repo_manager().update_rrdp_if_needed().map_err(|e| e.to_string())?;
    Ok(w)
}

fn rrdp_cfg(min_nr: usize, min_s: u32, max_nr: usize, max_s: u32, archive: bool) -> RrdpUpdatesConfig {
    RrdpUpdatesConfig {
        rrdp_delta_files_min_nr: min_nr,
        rrdp_delta_files_min_seconds: min_s,
        rrdp_delta_files_max_nr: max_nr,
        rrdp_delta_files_max_seconds: max_s,
        rrdp_delta_interval_min_seconds: 0,
        rrdp_files_archive: archive,
    }
}

pub fn run_c10(tier: &Tier, args: &[String]) -> i32 {
    let mut out = Outcome::new("C10", tier, "model_checking");
    out.assumptions = vec![
        "publishers alice, alice2 (look-alike handle), bob and the TA (whose base is the repository root by design); two objects, contents from a 2-element menu".into(),
        "a URI may occur only once per delta (as the property states); when it does occur twice only atomicity is checked".into(),
        "requests enter at RepositoryManager::rfc8181_message (the unsigned path the HTTP layer reaches after CMS validation; signatures are C12's subject)".into(),
    ];
    let depth = crate::report::arg_value(args, "--depth")
        .and_then(|d| d.parse().ok())
        .unwrap_or(if tier.thorough { 8 } else { 6 });
    let cap = crate::report::arg_value(args, "--cap")
        .and_then(|d| d.parse().ok())
        .unwrap_or(if tier.thorough { 1500 } else { 50 });
    let cfg = rrdp_cfg(5, 0, 50, 1, false);
    e1run::run(
        Spec {
            property: "C10".into(),
            configs: vec![Config {
                name: "three-publishers".into(),
                build: Box::new(move || build_pubd(cfg)),
                model: PubdModel {
                    reference: RefRepo::default(),
                    client: Client::default(),
                    c11: false,
                    full: true,
                    rrdp_cfg: cfg,
                    auto_update: false,
                },
            }],
            depth,
            wall_cap_s: cap,
            procs: 16,
            min_states: 20,
        },
        &mut out,
    );
    out.finish()
}

pub fn c11_configs(tier: &Tier) -> Vec<Config<PubdModel>> {
    let mut res = Vec::new();
    let mut add = |name: &str, cfg: RrdpUpdatesConfig, full: bool, auto: bool| {
        res.push(Config {
            name: name.to_string(),
            build: Box::new(move || if auto { build_pubd_ballast(cfg) } else { build_pubd(cfg) }),
            model: PubdModel {
                reference: RefRepo::default(),
                client: Client::default(),
                c11: true,
                full,
                rrdp_cfg: cfg,
                auto_update: auto,
            },
        });
    };
    add("tight-min1-max2", rrdp_cfg(1, 0, 2, 10, false), false, false);
    add("dense-young-min1200s-max2", rrdp_cfg(1, 1200, 2, 7200, false), false, true);
    add("dense-min2-max2", rrdp_cfg(2, 0, 2, 7200, false), false, true);
    if tier.thorough {
        add("test-min5-max50-1s", rrdp_cfg(5, 0, 50, 1, false), false, false);
        add("default-archive", rrdp_cfg(5, 1200, 50, 7200, true), true, false);
        add("dense-min2-max3-archive", rrdp_cfg(2, 60, 3, 7200, true), false, true);
    }
    res
}

pub fn run_c11_history(tier: &Tier, args: &[String], out: &mut Outcome) {
    let depth = crate::report::arg_value(args, "--depth")
        .and_then(|d| d.parse().ok())
        .unwrap_or(if tier.thorough { 6 } else { 5 });
    let cap = crate::report::arg_value(args, "--cap")
        .and_then(|d| d.parse().ok())
        .unwrap_or(if tier.thorough { 1200 } else { 35 });
    e1run::run(
        Spec {
            property: "C11".into(),
            configs: c11_configs(tier),
            depth,
            wall_cap_s: cap,
            procs: 16,
            min_states: 20,
        },
        out,
    );
}

pub fn run_c11(tier: &Tier, args: &[String]) -> i32 {
    let mut out = Outcome::new("C11", tier, "model_checking");
    out.assumptions = vec![
        "the simulated client remembers the snapshot of every (session, serial) it has seen on its path and replays the advertised delta chain whenever it is contiguous from its serial".into(),
        "delta cap follows the documented precedence: the first min_nr deltas and those younger than min_seconds are always kept; beyond those never more than max_nr in total".into(),
        "cuts are process deaths between two file-system mutations (fault points H3), not torn sectors".into(),
    ];
    run_c11_history(tier, args, &mut out);
    let hist_cov = out.coverage.clone();
    let fault_cov = run_c11_faults(tier, &mut out);
    let mut cov = hist_cov;
    if let serde_json::Value::Object(m) = &mut cov {
        m.insert("fault_enumeration".into(), fault_cov.clone());
        // the generic keys count both parts
        let e = fault_cov["evaluations"].as_u64().unwrap_or(0);
        let t = m.get("transitions").and_then(|x| x.as_u64()).unwrap_or(0);
        m.insert("evaluations".into(), serde_json::json!(e + t));
        m.insert("distinct_nontrivial".into(), serde_json::json!(e + m.get("states").and_then(|x| x.as_u64()).unwrap_or(0)));
        m.insert("rule".into(), serde_json::json!("history part: see states/transitions; fault part: see fault_enumeration.rule"));
    }
    out.coverage = cov;
    out.finish()
}

//------------ C11 fault part: every cut of a repository write -----------------

/// File-level consistency of the RRDP + rsync trees with each other and with
/// the publication server's content. `expect_current`: whether the snapshot
/// must equal the list replies (i.e. nothing is staged and the last write
/// completed).
pub fn files_consistent(w: &World, expect_current: bool) -> Vec<(String, String)> {
    files_consistent_opts(w, expect_current, expect_current)
}

/// `expect_rsync`: whether the rsync tree must equal the snapshot named by
/// the notification file (true whenever the last write completed).
pub fn files_consistent_opts(w: &World, expect_current: bool, expect_rsync: bool) -> Vec<(String, String)> {
    let mut v = Vec::new();
    let notif_bytes = match std::fs::read(rrdp_dir().join("notification.xml")) {
        Ok(b) => b,
        Err(e) => return vec![("notification".into(), format!("cannot read: {e}"))],
    };
    let mut notif = match rpki::rrdp::NotificationFile::parse(notif_bytes.as_slice()) {
        Ok(n) => n,
        Err(e) => return vec![("notification".into(), format!("does not parse: {e}"))],
    };
    let snap_bytes = match read_rel(w, notif.snapshot().uri().as_str()) {
        Ok(b) => b,
        Err(e) => return vec![("snapshot".into(), e)],
    };
    if !notif.snapshot().hash().matches(&snap_bytes) {
        v.push(("snapshot".into(), "snapshot hash differs from the notification".into()));
    }
    let snap = match rpki::rrdp::Snapshot::parse(snap_bytes.as_slice()) {
        Ok(s) => s,
        Err(e) => return vec![("snapshot".into(), format!("does not parse: {e}"))],
    };
    let mut current: BTreeMap<String, Bytes> = BTreeMap::new();
    for el in snap.into_elements() {
        let (uri, data) = el.unpack();
        current.insert(canon_uri(&uri.to_string()), data);
    }
    notif.sort_deltas();
    for d in notif.deltas() {
        match read_rel(w, d.uri().as_str()) {
            Err(e) => v.push(("delta-file".into(), e)),
            Ok(b) => {
                if !d.hash().matches(&b) {
                    v.push(("delta-file".into(), format!("hash of delta {} differs", d.serial())));
                } else if rpki::rrdp::Delta::parse(b.as_slice()).is_err() {
                    v.push(("delta-file".into(), format!("delta {} does not parse", d.serial())));
                }
            }
        }
    }
    if expect_current {
        let mut want: BTreeMap<String, Bytes> = BTreeMap::new();
        let rm = w.krill.repo_manager();
        for p in rm.publishers().unwrap_or_default() {
            if let Ok(d) = rm.get_publisher_details(p.clone()) {
                for f in d.current_files {
                    want.insert(canon_uri(&f.uri.to_string()), f.base64.to_bytes());
                }
            }
        }
        if want != current {
            v.push(("snapshot-content".into(), "snapshot file differs from the server's current content".into()));
        }
    }
    if expect_rsync {
        let mut disk: BTreeMap<String, Bytes> = BTreeMap::new();
        fn walk(dir: &Path, rel: &str, out: &mut BTreeMap<String, Bytes>) {
            if let Ok(rd) = std::fs::read_dir(dir) {
                for e in rd.flatten() {
                    let name = e.file_name().to_string_lossy().to_string();
                    let p = e.path();
                    if p.is_dir() {
                        walk(&p, &format!("{rel}{name}/"), out);
                    } else if let Ok(b) = std::fs::read(&p) {
                        out.insert(format!("{BASE}{rel}{name}"), Bytes::from(b));
                    }
                }
            }
        }
        walk(&Path::new("repo").join("rsync").join("current"), "", &mut disk);
        if disk != current {
            let only_d: Vec<_> = disk.keys().filter(|k| !current.contains_key(*k)).collect();
            let only_s: Vec<_> = current.keys().filter(|k| !disk.contains_key(*k)).collect();
            v.push(("rsync-tree".into(), format!("rsync/current differs from the snapshot: only on disk {only_d:?}, only in snapshot {only_s:?}")));
        }
    }
    v
}

fn publish_one(w: &mut World, name: &str, content: u8) -> Result<(), String> {
    let o = w.apply(&Op::PubDelta {
        publisher: "alice".into(),
        elems: vec![PubEl::Publish { uri: uri("alice", name), content }],
    });
    if o.ok { Ok(()) } else { Err(o.err.unwrap_or_default()) }
}

/// The follow-up every cut must allow: another publication and a repository
/// write succeed and leave everything consistent.
fn next_write_ok(w: &mut World, tag: &str, wop: WriteOp) -> Vec<(String, String)> {
    // first on a copy: no retry of the interrupted write at all - the next
    // thing that happens is another publication and its repository write
    // (after an interrupted session reset the reset itself is already
    // recorded, so this write is the first of the new session)
    let tag2 = tag.to_string();
    let r = crate::checks::c04::what_if(w, move |w2| {
        let mut v: Vec<(String, String)> = Vec::new();
        for name in [format!("noretry-{tag2}.txt"), format!("noretry2-{tag2}.txt")] {
            if let Err(e) = publish_one(w2, &name, 3) {
                v.push(("later-publish-failed".into(), format!("without a retry of the interrupted write: {}", e.replace('\n', " "))));
                return v;
            }
            if let Err(e) = w2.krill.repo_manager().update_rrdp_if_needed() {
                v.push(("later-write-failed".into(), format!("the next repository write after the cut (no retry of the interrupted one) fails: {}", e.to_string().replace('\n', " "))));
                return v;
            }
            v.extend(files_consistent(w2, true).into_iter().map(|(k, d)| (k, format!("after the cut and a new publication + write, without a retry of the interrupted write: {d}"))));
            if !v.is_empty() {
                return v;
            }
        }
        v
    });
    match r {
        Ok(x) if !x.is_empty() => return x,
        Ok(_) => {}
        Err(e) => return vec![("machinery".into(), e)],
    }
    let mut v = Vec::new();
    // first of all the plain retry, with nothing new to publish: the task is
    // rescheduled / the operator repeats the reset. It must succeed and
    // leave the RRDP files and the rsync tree agreeing with each other; for
    // an update also with the server's content (the interrupted update had
    // already been recorded).
    if let Err(e) = do_write(w, wop) {
        v.push(("retry-failed".into(), format!("repeating the interrupted write fails: {}", e.replace('\n', " "))));
        return v;
    }
    let current = matches!(wop, WriteOp::Update);
    v.extend(files_consistent_opts(w, current, true).into_iter().map(|(k, d)| (k, format!("after a plain retry of the interrupted write: {d}"))));
    if !v.is_empty() {
        return v;
    }
    // first the withdrawal of what the cut write was about: nothing that an
    // interrupted write staged may survive its withdrawal
    let o = w.apply(&Op::PubDelta {
        publisher: "alice".into(),
        elems: vec![PubEl::Withdraw { uri: uri("alice", "cut.txt"), old: Some(2) }],
    });
    if !o.ok {
        v.push(("later-publish-failed".into(), format!("withdrawing the object of the cut write: {}", o.err.unwrap_or_default().replace('\n', " "))));
        return v;
    }
    let notif = || std::fs::read(Path::new("repo").join("rrdp").join("notification.xml")).unwrap_or_default();
    let before = notif();
    if let Err(e) = w.krill.repo_manager().update_rrdp_if_needed() {
        v.push(("later-write-failed".into(), format!("the next repository write fails: {}", e.to_string().replace('\n', " "))));
        return v;
    }
    // (if the withdrawal cancelled a publication that was still staged,
    // there is nothing to write and nothing to demand yet)
    if notif() != before {
        v.extend(files_consistent(w, true));
        if !v.is_empty() {
            return v;
        }
    }
    // then two more publications and writes, in case the first only
    // half-recovered
    for name in [format!("after-{tag}.txt"), format!("after2-{tag}.txt")] {
        if let Err(e) = publish_one(w, &name, 3) {
            v.push(("later-publish-failed".into(), e.replace('\n', " ")));
            return v;
        }
        if let Err(e) = w.krill.repo_manager().update_rrdp_if_needed() {
            v.push(("later-write-failed".into(), format!("a later repository write after the cut fails: {}", e.to_string().replace('\n', " "))));
            return v;
        }
    }
    v.extend(files_consistent(w, true));
    if !v.is_empty() {
        return v;
    }
    // finally a withdrawal of an object that was already there at the cut,
    // followed by a session reset: serial numbers start again, nothing
    // staged under an old serial may come back
    let o = w.apply(&Op::PubDelta {
        publisher: "alice".into(),
        elems: vec![PubEl::Withdraw { uri: uri("alice", "p0.txt"), old: Some(1) }],
    });
    if o.ok {
        if let Err(e) = w.krill.repo_manager().update_rrdp_if_needed() {
            v.push(("later-write-failed".into(), format!("a later repository write after the cut fails: {}", e.to_string().replace('\n', " "))));
            return v;
        }
        if let Err(e) = w.krill.repo_manager().rrdp_session_reset() {
            v.push(("later-write-failed".into(), format!("a later session reset after the cut fails: {}", e.to_string().replace('\n', " "))));
            return v;
        }
        v.extend(files_consistent(w, true).into_iter().map(|(k, d)| (k, format!("after a later withdrawal and session reset: {d}"))));
    }
    v
}

#[derive(Clone, Copy, Debug)]
enum WriteOp {
    Update,
    SessionReset,
}

fn do_write(w: &mut World, op: WriteOp) -> Result<(), String> {
    match op {
        WriteOp::Update => w
            .krill
            .repo_manager()
            .update_rrdp_if_needed()
            .map(|_| ())
            .map_err(|e| e.to_string()),
        WriteOp::SessionReset => {
            w.krill.repo_manager().rrdp_session_reset().map_err(|e| e.to_string())
        }
    }
}

pub fn run_c11_faults(tier: &Tier, out: &mut Outcome) -> serde_json::Value {
    use crate::e3::{self, Mode};
    let root = e1run::scratch_root().with_extension("c11f");
    let _guard = e1run::ScratchGuard(root.clone());
    let _ = std::fs::remove_dir_all(&root);
    std::fs::create_dir_all(&root).unwrap();
    let mut scenarios: Vec<(&str, RrdpUpdatesConfig, usize, WriteOp)> = vec![
        // (name, retention, number of earlier updates, operation to cut)
        ("update-after-3", rrdp_cfg(1, 0, 2, 10, false), 3, WriteOp::Update),
        ("session-reset", rrdp_cfg(5, 0, 50, 1, false), 2, WriteOp::SessionReset),
    ];
    if tier.thorough {
        scenarios.push(("update-archive", rrdp_cfg(1, 0, 2, 10, true), 3, WriteOp::Update));
        scenarios.push(("first-update", rrdp_cfg(5, 1200, 50, 7200, false), 0, WriteOp::Update));
    }
    let mut evaluations = 0u64;
    let mut cut_kinds: BTreeSet<String> = BTreeSet::new();
    let mut samples = Vec::new();
    let mut per_scenario = Vec::new();
    // scenarios run in parallel worker processes
    let mut pids = Vec::new();
    for (si, (name, cfg, prior, wop)) in scenarios.iter().enumerate() {
        let dir = root.join(format!("s{si}"));
        std::fs::create_dir_all(&dir).unwrap();
        let outf = root.join(format!("s{si}.json"));
        use std::io::Write;
        let _ = std::io::stdout().flush();
        let pid = unsafe { libc::fork() };
        if pid == 0 {
            std::env::set_current_dir(&dir).unwrap();
            let res = std::panic::catch_unwind(std::panic::AssertUnwindSafe(|| {
                let mut results: Vec<serde_json::Value> = Vec::new();
                let mut w = build_pubd(*cfg).expect("build");
                for i in 0..*prior {
                    publish_one(&mut w, &format!("p{i}.txt"), 1).expect("prior publish");
                    w.krill.repo_manager().update_rrdp_if_needed().expect("prior update");
                }
                // the change the cut write is about
                publish_one(&mut w, "cut.txt", 2).expect("staged publish");
                // count
                let wop = *wop;
                let (log, _, d) = e3::fork_in_copy("count", || {
                    let mut w2 = World::reopen(WorldCfg { rrdp: *cfg, ..WorldCfg::default() }).expect("reopen");
                    e3::arm(Mode::Count, 0);
                    let r = do_write(&mut w2, wop);
                    let log = e3::disarm();
                    (log, r.is_ok())
                });
                let _ = std::fs::remove_dir_all(&d);
                let Some((log, ok)) = log else {
                    results.push(serde_json::json!({"machinery": "count run died"}));
                    return results;
                };
                if !ok {
                    results.push(serde_json::json!({"machinery": "fault-free write failed"}));
                    return results;
                }
                results.push(serde_json::json!({"mutations": log}));
                for n in 0..log.len() {
                    for mode in [Mode::Crash, Mode::Fail] {
                        let tag = format!("{}{n}", if mode == Mode::Crash { "c" } else { "f" });
                        let tag2 = tag.clone();
                        let cfg2 = *cfg;
                        // child A: the cut. A fresh runtime on the copy (so
                        // that nothing is shared with the template process).
                        let (res_a, code, dir_a) = e3::fork_in_copy(&tag, move || {
                            let mut w2 = World::reopen(WorldCfg { rrdp: cfg2, ..WorldCfg::default() }).expect("reopen");
                            e3::arm(mode, n);
                            let r = do_write(&mut w2, wop);
                            let _ = e3::disarm();
                            // only reached in Fail mode: the instance lives on
                            let mut v: Vec<(String, String)> = Vec::new();
                            v.extend(files_consistent(&w2, false));
                            v.extend(next_write_ok(&mut w2, &tag2, wop));
                            (r.is_ok(), v)
                        });
                        let mut viol: Vec<(String, String)> = Vec::new();
                        match (mode, res_a, code) {
                            (Mode::Crash, None, 77) => {
                                // verifier: a fresh instance on what survived
                                let tag3 = tag.clone();
                                let (res_v, code_v) = e3::fork_in_dir(&dir_a, move || {
                                    let mut v: Vec<(String, String)> = Vec::new();
                                    match World::reopen(WorldCfg { rrdp: cfg2, ..WorldCfg::default() }) {
                                        Err(e) => v.push(("reopen-failed".into(), e.to_string())),
                                        Ok(mut w3) => {
                                            v.extend(files_consistent(&w3, false));
                                            v.extend(next_write_ok(&mut w3, &tag3, wop));
                                        }
                                    }
                                    v
                                });
                                match res_v {
                                    Some(v) => viol.extend(v),
                                    None => viol.push(("machinery".into(), format!("verifier died ({code_v})"))),
                                }
                            }
                            (Mode::Crash, Some(_), _) => {
                                // the n-th mutation was never reached?
                                viol.push(("machinery".into(), "crash point not reached".into()));
                            }
                            (Mode::Fail, Some((_ok, v)), 0) => viol.extend(v),
                            (m, _, c) => viol.push(("machinery".into(), format!("child ended unexpectedly: mode {m:?} code {c}"))),
                        }
                        let _ = std::fs::remove_dir_all(&dir_a);
                        results.push(serde_json::json!({
                            "n": n, "mode": format!("{mode:?}"), "at": log[n], "violations": viol,
                        }));
                    }
                }
                results
            }));
            let results = res.unwrap_or_else(|_| vec![serde_json::json!({"machinery": "worker panicked"})]);
            let _ = std::fs::write(&outf, serde_json::to_vec(&results).unwrap());
            unsafe { libc::_exit(0) };
        }
        pids.push((pid, outf, name.to_string()));
    }
    for (pid, outf, name) in pids {
        let mut st = 0;
        unsafe { libc::waitpid(pid, &mut st, 0) };
        let results: Vec<serde_json::Value> = std::fs::read(&outf)
            .ok()
            .and_then(|b| serde_json::from_slice(&b).ok())
            .unwrap_or_else(|| vec![serde_json::json!({"machinery": "no result"})]);
        let mut cuts = 0;
        for r in results {
            if let Some(m) = r.get("machinery") {
                out.machinery_errors.push(format!("C11 faults {name}: {m}"));
                continue;
            }
            if let Some(m) = r.get("mutations") {
                samples.push(serde_json::json!({"scenario": name, "mutation_sequence": m}));
                continue;
            }
            evaluations += 1;
            cuts += 1;
            let at = r["at"].clone();
            let kind = at[0].as_str().unwrap_or("").to_string();
            cut_kinds.insert(kind.clone());
            for v in r["violations"].as_array().cloned().unwrap_or_default() {
                let k = v[0].as_str().unwrap_or("").to_string();
                let d = v[1].as_str().unwrap_or("").to_string();
                if k == "machinery" {
                    out.machinery_errors.push(format!("C11 faults {name} cut {}: {d}", r["n"]));
                    continue;
                }
                // the cut is identified by the kind of mutation and the
                // last path components (stable across runs)
                let detail = at[1].as_str().unwrap_or("");
                let short: String = detail.rsplit('/').take(2).collect::<Vec<_>>().join("<");
                out.findings.push(crate::report::Finding {
                    signature: format!(
                        "cut-{k}|{} @ scenario={name} mode={} at={kind}:{}",
                        crate::e1::normalize(&d), r["mode"].as_str().unwrap_or(""), crate::e1::normalize(&short)
                    ),
                    text: format!(
                        "[{name}] {} before mutation #{} ({kind} {detail}): {k}: {d}",
                        r["mode"].as_str().unwrap_or(""), r["n"]
                    ),
                    replay: serde_json::json!({"part": "c11-faults", "scenario": name, "cut": r}),
                });
            }
        }
        per_scenario.push(serde_json::json!({"scenario": name, "cuts": cuts}));
    }
    serde_json::json!({
        "evaluations": evaluations,
        "distinct_nontrivial": evaluations,
        "mutation_kinds_cut": cut_kinds,
        "per_scenario": per_scenario,
        "samples": samples,
        "rule": "for each scenario the fault-free write is run once counting every KV / file-system mutation (fault points H3); then for every index n and both modes (process death before mutation n; single failing mutation n) the write is re-run on a fresh copy, followed by a fresh instance (crash) or the same instance (fail) doing, on a copy, two new publications + writes without any retry, and then a plain retry of the interrupted write, a withdrawal, two more publications + writes and a withdrawal + session reset; the files must be consistent after each; every such execution is a distinct non-trivial case",
    })
}
