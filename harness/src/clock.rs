//! Virtual clock: the harness binary defines `clock_gettime`, so every time
//! read in the process (std, chrono, rpki `Time::now`) goes through here.
//!
//! CLOCK_REALTIME is *frozen*: it returns `BASE + offset`, where the offset
//! only moves when the harness says so. All other clocks are passed through.

use std::sync::atomic::{AtomicBool, AtomicI64, Ordering};

/// Frozen base: 2026-01-01T00:00:00Z.
pub const BASE_EPOCH: i64 = 1_767_225_600;

static OFFSET_S: AtomicI64 = AtomicI64::new(0);
/// Sub-second part, only moved by virtual sleeps (nanoseconds, < 1e9 is not
/// enforced: it is simply added).
static SLEPT_NS: AtomicI64 = AtomicI64::new(0);
static FROZEN: AtomicBool = AtomicBool::new(false);

#[unsafe(no_mangle)]
pub unsafe extern "C" fn clock_gettime(
    clk: libc::clockid_t,
    ts: *mut libc::timespec,
) -> libc::c_int {
    if clk == libc::CLOCK_REALTIME && FROZEN.load(Ordering::Relaxed) {
        if !ts.is_null() {
            unsafe {
                let ns = SLEPT_NS.load(Ordering::Relaxed);
                (*ts).tv_sec = BASE_EPOCH
                    + OFFSET_S.load(Ordering::Relaxed)
                    + ns / 1_000_000_000;
                (*ts).tv_nsec = ns % 1_000_000_000;
            }
        }
        return 0;
    }
    unsafe { libc::syscall(libc::SYS_clock_gettime, clk, ts) as libc::c_int }
}

/// While frozen, sleeping is virtual: it advances the frozen clock by the
/// requested duration and returns at once (krill sleeps 1 ms in the queue to
/// obtain a fresh timestamp; with a frozen clock a real sleep would not).
#[unsafe(no_mangle)]
pub unsafe extern "C" fn nanosleep(
    req: *const libc::timespec,
    rem: *mut libc::timespec,
) -> libc::c_int {
    if FROZEN.load(Ordering::Relaxed) && !req.is_null() {
        let ns = unsafe { (*req).tv_sec * 1_000_000_000 + (*req).tv_nsec };
        SLEPT_NS.fetch_add(ns, Ordering::SeqCst);
        return 0;
    }
    unsafe { libc::syscall(libc::SYS_nanosleep, req, rem) as libc::c_int }
}

#[unsafe(no_mangle)]
pub unsafe extern "C" fn clock_nanosleep(
    clk: libc::clockid_t,
    flags: libc::c_int,
    req: *const libc::timespec,
    rem: *mut libc::timespec,
) -> libc::c_int {
    if FROZEN.load(Ordering::Relaxed) && !req.is_null() && flags == 0 {
        let ns = unsafe { (*req).tv_sec * 1_000_000_000 + (*req).tv_nsec };
        SLEPT_NS.fetch_add(ns, Ordering::SeqCst);
        return 0;
    }
    let r = unsafe {
        libc::syscall(libc::SYS_clock_nanosleep, clk, flags, req, rem)
    };
    if r < 0 { unsafe { *libc::__errno_location() } } else { 0 }
}

/// Really sleep (harness use only), regardless of the freeze.
pub fn real_sleep_ms(ms: u64) {
    let ts = libc::timespec {
        tv_sec: (ms / 1000) as i64,
        tv_nsec: ((ms % 1000) * 1_000_000) as i64,
    };
    unsafe {
        libc::syscall(
            libc::SYS_nanosleep, &ts as *const _, std::ptr::null_mut::<libc::timespec>()
        );
    }
}

/// Freeze the realtime clock at BASE + current offset.
pub fn freeze() {
    FROZEN.store(true, Ordering::SeqCst);
}

pub fn unfreeze() {
    FROZEN.store(false, Ordering::SeqCst);
}

pub fn is_frozen() -> bool {
    FROZEN.load(Ordering::SeqCst)
}

pub fn advance(secs: i64) {
    OFFSET_S.fetch_add(secs, Ordering::SeqCst);
    // whole seconds only: drop what virtual sleeps accumulated
    SLEPT_NS.store(0, Ordering::SeqCst);
}

pub fn offset() -> i64 {
    OFFSET_S.load(Ordering::SeqCst)
}

pub fn set_offset(secs: i64) {
    OFFSET_S.store(secs, Ordering::SeqCst);
}

pub fn now_epoch() -> i64 {
    BASE_EPOCH + offset() + SLEPT_NS.load(Ordering::SeqCst) / 1_000_000_000
}

pub fn now_millis() -> i128 {
    (BASE_EPOCH + offset()) as i128 * 1000
        + (SLEPT_NS.load(Ordering::SeqCst) / 1_000_000) as i128
}

/// Real wall time (monotonic), unaffected by the freeze.
pub fn wall() -> std::time::Instant {
    std::time::Instant::now()
}

/// Asserts that the interposition works: rpki's Time::now must follow us.
pub fn self_test() {
    let was = is_frozen();
    freeze();
    let t0 = rpki::repository::x509::Time::now().timestamp();
    advance(12345);
    let t1 = rpki::repository::x509::Time::now().timestamp();
    advance(-12345);
    let st = std::time::SystemTime::now()
        .duration_since(std::time::UNIX_EPOCH)
        .unwrap()
        .as_secs() as i64;
    if !was {
        unfreeze();
    }
    assert_eq!(t1 - t0, 12345, "clock interposition not effective (rpki)");
    assert_eq!(st, t0, "clock interposition not effective (std)");
}
