//! Harness-side identity keys and CMS construction (RFC 6492 / RFC 8181
//! messages signed by keys the harness owns), used by C12 and C16.

use std::sync::Mutex;

use bytes::Bytes;
use openssl::hash::MessageDigest;
use openssl::pkey::{PKey, Private};
use rpki::ca::idcert::IdCert;
use rpki::ca::provisioning::{self, ProvisioningCms};
use rpki::ca::publication::{self, PublicationCms};
use rpki::crypto::signer::{KeyError, Signer, SigningAlgorithm, SigningError};
use rpki::crypto::{PublicKey, PublicKeyFormat, Signature, SignatureAlgorithm};
use rpki::repository::x509::{Time, Validity};

/// A signer over keys taken from the pre-generated pool.
pub struct PoolSigner {
    keys: Mutex<Vec<PKey<Private>>>,
    oneoff: PKey<Private>,
}

fn key_info(k: &PKey<Private>) -> PublicKey {
    let der = k.rsa().unwrap().public_key_to_der().unwrap();
    PublicKey::decode(der.as_slice()).unwrap()
}

fn sign_with<Alg: SignatureAlgorithm>(k: &PKey<Private>, alg: Alg, data: &[u8]) -> Result<Signature<Alg>, String> {
    if !matches!(alg.signing_algorithm(), SigningAlgorithm::RsaSha256) {
        return Err("invalid algorithm".into());
    }
    let mut s = openssl::sign::Signer::new(MessageDigest::sha256(), k).map_err(|e| e.to_string())?;
    s.update(data).map_err(|e| e.to_string())?;
    Ok(Signature::new(alg, Bytes::from(s.sign_to_vec().map_err(|e| e.to_string())?)))
}

impl PoolSigner {
    pub fn new() -> Self {
        let pem = crate::keys::take_persistent().expect("key pool exhausted");
        PoolSigner {
            keys: Mutex::new(Vec::new()),
            oneoff: PKey::private_key_from_pem(pem.as_bytes()).unwrap(),
        }
    }

    /// A signer over fixed pool keys (by index; nothing is drawn).
    pub fn new_fixed(indices: &[usize]) -> Self {
        let load = |i: usize| PKey::private_key_from_pem(crate::keys::nth_persistent(i).expect("key pool").as_bytes()).unwrap();
        PoolSigner {
            keys: Mutex::new(indices.iter().map(|i| load(*i)).collect()),
            oneoff: load(indices[0]),
        }
    }

    /// Draws a fresh key from the pool.
    pub fn new_key(&self) -> usize {
        let pem = crate::keys::take_persistent().expect("key pool exhausted");
        let k = PKey::private_key_from_pem(pem.as_bytes()).unwrap();
        let mut keys = self.keys.lock().unwrap();
        keys.push(k);
        keys.len() - 1
    }

    pub fn id_cert(&self, key: usize) -> IdCert {
        let validity = Validity::new(Time::five_minutes_ago(), Time::years_from_now(15));
        IdCert::new_ta(validity, &key, self).unwrap()
    }

    pub fn public_key(&self, key: usize) -> PublicKey {
        key_info(&self.keys.lock().unwrap()[key])
    }

    pub fn sign_6492(&self, key: usize, msg: provisioning::Message) -> Bytes {
        ProvisioningCms::create(msg, &key, self).unwrap().to_bytes()
    }

    pub fn sign_8181(&self, key: usize, msg: publication::Message) -> Bytes {
        PublicationCms::create(msg, &key, self).unwrap().to_bytes()
    }

    /// A CA certificate request for `key` with publication points under
    /// `base`.
    pub fn csr(&self, key: usize, base: &str) -> rpki::ca::csr::RpkiCaCsr {
        let repo = rpki::uri::Rsync::from_string(base.to_string()).unwrap();
        let mft = rpki::uri::Rsync::from_string(format!("{base}key{key}.mft")).unwrap();
        let notify = rpki::uri::Https::from_string("https://localhost:3000/rrdp/notification.xml".to_string()).unwrap();
        let cap = rpki::ca::csr::Csr::construct_rpki_ca(self, &key, &repo, &mft, Some(&notify)).unwrap();
        rpki::ca::csr::RpkiCaCsr::decode(cap.as_slice()).unwrap()
    }
}

impl Signer for PoolSigner {
    type KeyId = usize;
    type Error = String;

    fn create_key(&self, _algorithm: PublicKeyFormat) -> Result<usize, String> {
        Ok(self.new_key())
    }

    fn get_key_info(&self, key: &usize) -> Result<PublicKey, KeyError<String>> {
        self.keys.lock().unwrap().get(*key).map(key_info).ok_or(KeyError::KeyNotFound)
    }

    fn destroy_key(&self, _key: &usize) -> Result<(), KeyError<String>> {
        Ok(())
    }

    fn sign<Alg: SignatureAlgorithm, D: AsRef<[u8]> + ?Sized>(
        &self,
        key: &usize,
        algorithm: Alg,
        data: &D,
    ) -> Result<Signature<Alg>, SigningError<String>> {
        let keys = self.keys.lock().unwrap();
        let k = keys.get(*key).ok_or(SigningError::KeyNotFound)?;
        sign_with(k, algorithm, data.as_ref()).map_err(SigningError::Signer)
    }

    fn sign_one_off<Alg: SignatureAlgorithm, D: AsRef<[u8]> + ?Sized>(
        &self,
        algorithm: Alg,
        data: &D,
    ) -> Result<(Signature<Alg>, PublicKey), String> {
        let sig = sign_with(&self.oneoff, algorithm, data.as_ref())?;
        Ok((sig, key_info(&self.oneoff)))
    }

    fn rand(&self, target: &mut [u8]) -> Result<(), String> {
        for (i, b) in target.iter_mut().enumerate() {
            *b = (i as u8).wrapping_mul(37).wrapping_add(11);
        }
        Ok(())
    }
}
