//! The real HTTP front end in-process: StartupManager -> KrillManager ->
//! HttpServer, reached through a real hyper HTTP/1 connection over an
//! in-memory duplex pipe (no sockets). Every request runs the daemon's own
//! authentication, path parsing, body limits, dispatch and thread pool.

use std::sync::Arc;

use bytes::Bytes;
use http_body_util::{BodyExt, Full};
use hyper_util::rt::TokioIo;
use krill::commons::storage::StorageSystem;
use krill::config::Config;
use krill::daemon::http::server::HttpServer;
use krill::server::manager::StartupManager;
use krill::server::runtime::ThreadPool;

pub struct Daemon {
    pub tokio: tokio::runtime::Runtime,
    pub server: Arc<HttpServer>,
    _pool: ThreadPool,
}

#[derive(Clone, Debug, Default)]
pub struct Reply {
    pub status: u16,
    pub body: Vec<u8>,
    /// the connection failed before a response arrived (e.g. the handler
    /// returned a fatal error)
    pub broken: Option<String>,
}

impl Reply {
    pub fn text(&self) -> String {
        String::from_utf8_lossy(&self.body).to_string()
    }
}

#[derive(Clone, Debug, Default)]
pub struct Call {
    pub method: String,
    pub path: String,
    pub bearer: Option<String>,
    pub body: Vec<u8>,
    /// name of the system user the (simulated) Unix socket peer runs as
    pub unix_user: Option<String>,
    /// raw Authorization header value (takes precedence over `bearer`)
    pub authorization: Option<Vec<u8>>,
}

impl Daemon {
    /// Opens the daemon on the storage the config names (current directory
    /// relative). With `scheduler` the real scheduler thread is started.
    pub fn open(config: Config, scheduler: bool) -> Result<Self, String> {
        let tokio = tokio::runtime::Builder::new_multi_thread()
            .worker_threads(2)
            .enable_all()
            .build()
            .map_err(|e| e.to_string())?;
        let storage = StorageSystem::new(config.storage_uri.clone());
        let mut startup = StartupManager::new(config, storage, tokio.handle().clone()).map_err(|e| e.to_string())?;
        if scheduler {
            startup.run_scheduler().map_err(|e| e.to_string())?;
        }
        let (manager, pool) = startup.promote().map_err(|e| e.to_string())?;
        let server = {
            let _g = tokio.enter();
            HttpServer::new(manager, tokio.handle()).map_err(|e| e.to_string())?
        };
        Ok(Daemon { tokio, server, _pool: pool })
    }

    pub fn call(&self, c: &Call) -> Reply {
        let weak = Arc::downgrade(&self.server);
        let c = c.clone();
        self.tokio.block_on(async move {
            let (client_io, server_io) = tokio::io::duplex(1 << 22);
            let user = c.unix_user.as_ref().map(|name| nix::unistd::User {
                name: name.clone(),
                passwd: Default::default(),
                uid: nix::unistd::Uid::from_raw(4242),
                gid: nix::unistd::Gid::from_raw(4242),
                gecos: Default::default(),
                dir: Default::default(),
                shell: Default::default(),
            });
            let srv = tokio::spawn(async move {
                let svc = hyper::service::service_fn(move |mut req: hyper::Request<hyper::body::Incoming>| {
                    if let Some(u) = user.clone() {
                        req.extensions_mut().insert(u);
                    }
                    HttpServer::process_request(weak.clone(), req)
                });
                let _ = hyper::server::conn::http1::Builder::new().serve_connection(TokioIo::new(server_io), svc).await;
            });
            let res = async {
                let (mut sender, conn) = hyper::client::conn::http1::handshake(TokioIo::new(client_io))
                    .await
                    .map_err(|e| format!("handshake: {e}"))?;
                let conn_task = tokio::spawn(async move {
                    let _ = conn.await;
                });
                let mut b = hyper::Request::builder().method(c.method.as_str()).uri(c.path.as_str()).header("host", "localhost");
                if let Some(a) = &c.authorization {
                    b = b.header("authorization", hyper::header::HeaderValue::from_bytes(a).map_err(|e| format!("request: {e}"))?);
                } else if let Some(t) = &c.bearer {
                    b = b.header("authorization", hyper::header::HeaderValue::from_bytes(format!("Bearer {t}").as_bytes()).map_err(|e| format!("request: {e}"))?);
                }
                if !c.body.is_empty() {
                    b = b.header("content-type", "application/json");
                }
                let req = b.body(Full::new(Bytes::from(c.body.clone()))).map_err(|e| format!("request: {e}"))?;
                let resp = sender.send_request(req).await.map_err(|e| format!("send: {e}"))?;
                let status = resp.status().as_u16();
                let body = resp.into_body().collect().await.map_err(|e| format!("body: {e}"))?.to_bytes().to_vec();
                drop(sender);
                conn_task.abort();
                Ok::<_, String>((status, body))
            };
            let res = match tokio::time::timeout(std::time::Duration::from_secs(60), res).await {
                Ok(r) => r,
                Err(_) => Err("timeout: no response within 60 s".to_string()),
            };
            srv.abort();
            match res {
                Ok((status, body)) => Reply { status, body, broken: None },
                Err(e) => Reply { status: 0, body: vec![], broken: Some(e) },
            }
        })
    }

    pub fn get(&self, path: &str) -> Reply {
        self.call(&Call { method: "GET".into(), path: path.into(), bearer: Some("secret".into()), ..Default::default() })
    }

    pub fn post(&self, path: &str, body: &[u8]) -> Reply {
        self.call(&Call { method: "POST".into(), path: path.into(), bearer: Some("secret".into()), body: body.to_vec(), ..Default::default() })
    }

    pub fn delete(&self, path: &str) -> Reply {
        self.call(&Call { method: "DELETE".into(), path: path.into(), bearer: Some("secret".into()), ..Default::default() })
    }
}
