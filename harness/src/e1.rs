//! Engine E1: explicit-state exploration of operation sequences on the real
//! krill code, with fork() as the checkpoint mechanism and a shared-memory
//! seen-set.

use std::io::Write;
use std::path::{Path, PathBuf};
use std::sync::atomic::{AtomicI64, AtomicU64, Ordering};
use std::time::{Duration, Instant};

use serde::{Deserialize, Serialize};

use crate::clock;
use crate::fingerprint;
use crate::ops::{Op, OpOutcome};
use crate::world::World;

//------------ shared memory -------------------------------------------------

const TABLE_BITS: usize = 21; // 2M slots * 24 bytes = 48 MB
const TABLE_SIZE: usize = 1 << TABLE_BITS;
pub const MAX_DEPTHS: usize = 24;
pub const N_COUNTERS: usize = 16;

#[repr(C)]
pub struct Header {
    pub states: AtomicU64,
    pub transitions: AtomicU64,
    pub changed: AtomicU64,
    pub rejected: AtomicU64,
    pub violations: AtomicU64,
    pub pruned: AtomicU64,
    pub tokens: AtomicI64,
    pub cap_hit: AtomicU64,
    pub machinery_errors: AtomicU64,
    pub next_dir: AtomicU64,
    pub samples: AtomicU64,
    pub fatal_seen: AtomicU64,
    pub per_depth_new: [AtomicU64; MAX_DEPTHS],
    pub per_depth_trans: [AtomicU64; MAX_DEPTHS],
    /// free counters for oracles ("evaluated with non-empty input" etc.)
    pub counters: [AtomicU64; N_COUNTERS],
}

#[repr(C)]
struct Slot {
    k0: AtomicU64,
    k1: AtomicU64,
    depth: AtomicU64,
}

pub struct Shared {
    base: *mut u8,
    len: usize,
}

unsafe impl Send for Shared {}
unsafe impl Sync for Shared {}

impl Shared {
    pub fn new() -> Self {
        let len = std::mem::size_of::<Header>()
            + TABLE_SIZE * std::mem::size_of::<Slot>();
        let base = unsafe {
            libc::mmap(
                std::ptr::null_mut(),
                len,
                libc::PROT_READ | libc::PROT_WRITE,
                libc::MAP_SHARED | libc::MAP_ANONYMOUS,
                -1,
                0,
            )
        };
        assert!(base != libc::MAP_FAILED, "mmap failed");
        Shared { base: base as *mut u8, len }
    }

    pub fn header(&self) -> &Header {
        unsafe { &*(self.base as *const Header) }
    }

    fn slot(&self, i: usize) -> &Slot {
        unsafe {
            let p = self.base.add(std::mem::size_of::<Header>()) as *const Slot;
            &*p.add(i)
        }
    }

    /// Zero everything (new iteration).
    pub fn reset(&self) {
        unsafe { std::ptr::write_bytes(self.base, 0, self.len) };
    }

    /// Insert `key` reached at `depth`. Returns (is_new, should_expand).
    pub fn insert(&self, key: (u64, u64), depth: u64) -> (bool, bool) {
        let mut i = (key.0 as usize) & (TABLE_SIZE - 1);
        for _ in 0..TABLE_SIZE {
            let s = self.slot(i);
            let cur = s.k0.load(Ordering::Acquire);
            if cur == 0 {
                match s.k0.compare_exchange(
                    0, key.0, Ordering::AcqRel, Ordering::Acquire,
                ) {
                    Ok(_) => {
                        s.depth.store(depth, Ordering::Release);
                        s.k1.store(key.1, Ordering::Release);
                        return (true, true);
                    }
                    Err(other) => {
                        if other != key.0 {
                            i = (i + 1) & (TABLE_SIZE - 1);
                            continue;
                        }
                    }
                }
            } else if cur != key.0 {
                i = (i + 1) & (TABLE_SIZE - 1);
                continue;
            }
            // k0 matches: wait for k1
            let mut k1 = s.k1.load(Ordering::Acquire);
            let mut spins = 0;
            while k1 == 0 {
                std::hint::spin_loop();
                spins += 1;
                if spins > 100_000_000 {
                    panic!("seen-set: writer vanished");
                }
                k1 = s.k1.load(Ordering::Acquire);
            }
            if k1 != key.1 {
                i = (i + 1) & (TABLE_SIZE - 1);
                continue;
            }
            let prev = s.depth.fetch_min(depth, Ordering::AcqRel);
            return (false, depth < prev);
        }
        panic!("seen-set full");
    }
}

impl Drop for Shared {
    fn drop(&mut self) {
        unsafe { libc::munmap(self.base as *mut libc::c_void, self.len) };
    }
}

//------------ violations ----------------------------------------------------

#[derive(Clone, Debug, Serialize, Deserialize)]
pub struct Violation {
    pub property: String,
    /// stable class of the violated oracle clause, e.g. "rp-reject"
    pub kind: String,
    pub detail: String,
    pub config: String,
    pub ops: Vec<Op>,
}

impl Violation {
    /// A signature that is stable across runs: kind + detail with random
    /// identifiers (hex runs, numbers) masked.
    pub fn signature(&self) -> String {
        format!("{}|{}", self.kind, stable_detail(&self.kind, &self.detail))
    }
}

/// The part of a finding's detail that identifies it across runs: for a
/// task loop that never goes quiet the list of the last tasks (class numbers
/// that keep counting up, whichever task happened to be last) is dropped.
pub fn stable_detail(kind: &str, detail: &str) -> String {
    if kind == "fatal" {
        if let Some(i) = detail.find("livelock?") {
            return normalize(&detail[..i + "livelock?".len()]);
        }
    }
    normalize(detail)
}

pub fn normalize(s: &str) -> String {
    let mut out = String::new();
    let mut run = String::new();
    let flush = |run: &mut String, out: &mut String| {
        if run.len() >= 8 && run.chars().all(|c| c.is_ascii_hexdigit()) {
            out.push_str("<id>");
        } else if run.len() >= 6 && run.chars().all(|c| c.is_ascii_digit()) {
            out.push_str("<n>");
        } else {
            out.push_str(run);
        }
        run.clear();
    };
    for c in s.chars() {
        if c.is_ascii_alphanumeric() {
            run.push(c);
        } else {
            flush(&mut run, &mut out);
            // (signatures are matched by line-oriented regular expressions)
            out.push(if c == '\n' || c == '\r' || c == '\t' { ' ' } else { c });
        }
    }
    flush(&mut run, &mut out);
    out
}

//------------ explorer ------------------------------------------------------

pub struct Ctx<'a> {
    pub property: &'a str,
    pub config_name: String,
    pub shared: &'a Shared,
    pub run_dir: PathBuf,
    pub max_depth: usize,
    pub par_depth: usize,
    pub deadline: Instant,
    pub sample_limit: u64,
}

pub trait Model {
    /// Operations enabled in this state (simplest first).
    fn alphabet(&mut self, w: &World, depth: usize, path: &[Op]) -> Vec<Op>;
    /// Apply the operation (default: op + pump).
    fn apply(&mut self, w: &mut World, op: &Op) -> OpOutcome {
        w.apply_pumped(op)
    }
    /// Oracles after a transition. Return (kind, detail) of each violation.
    fn check(
        &mut self, w: &mut World, path: &[Op], out: &OpOutcome, hdr: &Header,
    ) -> Vec<(String, String)>;
    /// State fingerprint (default: the canonical projection).
    fn fingerprint(&mut self, w: &World) -> (u64, u64) {
        fingerprint::fingerprint(w)
    }
}

fn copy_dir(src: &Path, dst: &Path) -> std::io::Result<()> {
    std::fs::create_dir_all(dst)?;
    for entry in std::fs::read_dir(src)? {
        let entry = entry?;
        let name = entry.file_name();
        let ft = entry.file_type()?;
        let from = entry.path();
        let to = dst.join(&name);
        if ft.is_dir() {
            if name == ".locks" {
                continue;
            }
            if name == ".tmp" {
                // krill creates this directory only when a store is opened
                std::fs::create_dir_all(dst.join(&name))?;
                continue;
            }
            copy_dir(&from, &to)?;
        } else if ft.is_file() {
            std::fs::copy(&from, &to)?;
        }
    }
    Ok(())
}

fn write_violation(ctx: &Ctx, v: &Violation) {
    let n = ctx.shared.header().violations.fetch_add(1, Ordering::SeqCst);
    let dir = ctx.run_dir.join("violations");
    let _ = std::fs::create_dir_all(&dir);
    let path = dir.join(format!("v{n:06}.json"));
    let _ = std::fs::write(path, serde_json::to_vec_pretty(v).unwrap());
}

fn write_sample(ctx: &Ctx, path: &[Op], note: &str) {
    let n = ctx.shared.header().samples.fetch_add(1, Ordering::SeqCst);
    if n >= ctx.sample_limit {
        return;
    }
    let line = serde_json::json!({"ops": path, "end": note}).to_string() + "\n";
    if let Ok(mut f) = std::fs::OpenOptions::new()
        .create(true)
        .append(true)
        .open(ctx.run_dir.join("samples.jsonl"))
    {
        let _ = f.write_all(line.as_bytes());
    }
}

fn acquire_token(ctx: &Ctx, children: &mut Vec<libc::pid_t>) {
    loop {
        let t = ctx.shared.header().tokens.fetch_sub(1, Ordering::SeqCst);
        if t > 0 {
            return;
        }
        ctx.shared.header().tokens.fetch_add(1, Ordering::SeqCst);
        // reap any finished child, else sleep a little
        if !reap(ctx, children, false) {
            clock::real_sleep_ms(1);
        }
    }
}

/// Reaps children; returns true if at least one was reaped.
fn reap(ctx: &Ctx, children: &mut Vec<libc::pid_t>, block: bool) -> bool {
    let mut any = false;
    let mut i = 0;
    while i < children.len() {
        let mut status = 0;
        let r = unsafe {
            libc::waitpid(
                children[i],
                &mut status,
                if block { 0 } else { libc::WNOHANG },
            )
        };
        if r == children[i] {
            children.swap_remove(i);
            any = true;
            let exited = libc::WIFEXITED(status);
            let code = if exited { libc::WEXITSTATUS(status) } else { -1 };
            if code != 10 {
                // token still held by the child: give it back
                ctx.shared.header().tokens.fetch_add(1, Ordering::SeqCst);
            }
            if !(exited && (code == 0 || code == 10)) {
                ctx.shared
                    .header()
                    .machinery_errors
                    .fetch_add(1, Ordering::SeqCst);
                eprintln!("e1: child {r} ended abnormally: status {status:#x}");
            }
        } else {
            i += 1;
        }
    }
    any
}

/// Explore from `w` (the process *is* the state). `has_token` says whether
/// this process currently owns a run token. Returns the exit code to use.
pub fn explore<M: Model>(
    ctx: &Ctx,
    model: &mut M,
    w: &mut World,
    path: &mut Vec<Op>,
    depth: usize,
    mut has_token: bool,
) -> i32 {
    let hdr = ctx.shared.header();
    let parallel = depth < ctx.par_depth;
    let ops = model.alphabet(w, depth, path);
    let my_dir = std::env::current_dir().unwrap();
    let mut children: Vec<libc::pid_t> = Vec::new();
    if parallel && has_token {
        hdr.tokens.fetch_add(1, Ordering::SeqCst);
        has_token = false;
    }
    for op in ops {
        if Instant::now() > ctx.deadline {
            hdr.cap_hit.store(1, Ordering::SeqCst);
            break;
        }
        if parallel {
            acquire_token(ctx, &mut children);
        }
        let _ = std::io::stdout().flush();
        let pid = unsafe { libc::fork() };
        if pid < 0 {
            hdr.machinery_errors.fetch_add(1, Ordering::SeqCst);
            eprintln!("e1: fork failed");
            if parallel {
                hdr.tokens.fetch_add(1, Ordering::SeqCst);
            }
            continue;
        }
        if pid == 0 {
            // ---- child: the successor state
            let code = child_main(ctx, model, w, path, depth, &op, &my_dir);
            unsafe { libc::_exit(code) };
        }
        if parallel {
            children.push(pid);
        } else {
            let mut one = vec![pid];
            // sequential: the child runs on this process's slot; a code-0
            // exit must not release a token, so compensate.
            reap_sequential(ctx, &mut one, path, &op);
        }
    }
    while !children.is_empty() {
        reap(ctx, &mut children, true);
    }
    if has_token { 0 } else { 10 }
}

fn reap_sequential(ctx: &Ctx, one: &mut Vec<libc::pid_t>, path: &[Op], op: &Op) {
    let pid = one[0];
    let mut status = 0;
    let r = unsafe { libc::waitpid(pid, &mut status, 0) };
    let exited = libc::WIFEXITED(status);
    let code = if exited { libc::WEXITSTATUS(status) } else { -1 };
    if r != pid || !(exited && (code == 0 || code == 10)) {
        ctx.shared.header().machinery_errors.fetch_add(1, Ordering::SeqCst);
        eprintln!(
            "e1: child {pid} ended abnormally (status {status:#x}) after {:?} + {}",
            path, op
        );
    }
}

fn child_main<M: Model>(
    ctx: &Ctx,
    model: &mut M,
    w: &mut World,
    path: &mut Vec<Op>,
    depth: usize,
    op: &Op,
    parent_dir: &Path,
) -> i32 {
    let hdr = ctx.shared.header();
    // relocate: private copy of the world directory
    let n = hdr.next_dir.fetch_add(1, Ordering::SeqCst);
    let dir = ctx.run_dir.join(format!("w{n}"));
    if let Err(e) = copy_dir(parent_dir, &dir) {
        eprintln!("e1: copy_dir failed: {e}");
        hdr.machinery_errors.fetch_add(1, Ordering::SeqCst);
        return 0;
    }
    if let Err(e) = std::env::set_current_dir(&dir) {
        eprintln!("e1: chdir failed: {e}");
        hdr.machinery_errors.fetch_add(1, Ordering::SeqCst);
        return 0;
    }
    path.push(op.clone());
    let parent_fp = model.fingerprint(w);
    let result = std::panic::catch_unwind(std::panic::AssertUnwindSafe(|| {
        let out = model.apply(w, op);
        let viol = model.check(w, path, &out, hdr);
        (out, viol)
    }));
    hdr.transitions.fetch_add(1, Ordering::SeqCst);
    if depth < MAX_DEPTHS {
        hdr.per_depth_trans[depth].fetch_add(1, Ordering::SeqCst);
    }
    let mut code = 0;
    match result {
        Err(p) => {
            let msg = panic_message(&p);
            write_violation(ctx, &Violation {
                property: ctx.property.to_string(),
                kind: "panic".into(),
                detail: msg,
                config: ctx.config_name.clone(),
                ops: path.clone(),
            });
        }
        Ok((out, viol)) => {
            if !out.ok {
                hdr.rejected.fetch_add(1, Ordering::SeqCst);
            }
            if out.fatal.is_some() {
                hdr.fatal_seen.fetch_add(1, Ordering::SeqCst);
            }
            if !viol.is_empty() {
                for (kind, detail) in viol {
                    write_violation(ctx, &Violation {
                        property: ctx.property.to_string(),
                        kind,
                        detail,
                        config: ctx.config_name.clone(),
                        ops: path.clone(),
                    });
                }
            } else {
                let fp = model.fingerprint(w);
                if fp != parent_fp {
                    hdr.changed.fetch_add(1, Ordering::SeqCst);
                }
                let (is_new, expand) = ctx.shared.insert(fp, depth as u64 + 1);
                if is_new {
                    hdr.states.fetch_add(1, Ordering::SeqCst);
                    if depth + 1 < MAX_DEPTHS {
                        hdr.per_depth_new[depth + 1].fetch_add(1, Ordering::SeqCst);
                    }
                }
                if !expand {
                    hdr.pruned.fetch_add(1, Ordering::SeqCst);
                    write_sample(ctx, path, "seen");
                } else if depth + 1 >= ctx.max_depth {
                    write_sample(ctx, path, "depth");
                } else {
                    code = explore(ctx, model, w, path, depth + 1, depth < ctx.par_depth);
                }
            }
        }
    }
    let _ = std::env::set_current_dir("/");
    let _ = std::fs::remove_dir_all(&dir);
    code
}

pub fn panic_message(p: &Box<dyn std::any::Any + Send>) -> String {
    if let Some(s) = p.downcast_ref::<&str>() {
        s.to_string()
    } else if let Some(s) = p.downcast_ref::<String>() {
        s.clone()
    } else {
        "non-string panic".into()
    }
}

//------------ run driver ----------------------------------------------------

#[derive(Clone, Debug, Default, Serialize)]
pub struct RunStats {
    pub config: String,
    pub depth: usize,
    pub completed: bool,
    pub states: u64,
    pub transitions: u64,
    pub changed: u64,
    pub rejected_ops: u64,
    pub pruned: u64,
    pub violations: u64,
    pub machinery_errors: u64,
    pub fatal_seen: u64,
    pub per_depth_new: Vec<u64>,
    pub counters: Vec<u64>,
    pub wall_s: f64,
}

/// One complete exploration to `max_depth` from a freshly built world.
/// `build` is called in a forked child whose cwd is an empty directory.
pub fn run_once<M: Model>(
    property: &str,
    config_name: &str,
    shared: &Shared,
    run_dir: &Path,
    max_depth: usize,
    procs: usize,
    deadline: Instant,
    build: &dyn Fn() -> Result<World, String>,
    model: &mut M,
) -> RunStats {
    let t0 = Instant::now();
    shared.reset();
    shared.header().tokens.store(procs as i64, Ordering::SeqCst);
    let ctx = Ctx {
        property,
        config_name: config_name.to_string(),
        shared,
        run_dir: run_dir.to_path_buf(),
        max_depth,
        par_depth: 2,
        deadline,
        sample_limit: 12,
    };
    let _ = std::fs::create_dir_all(run_dir);
    let _ = std::io::stdout().flush();
    let pid = unsafe { libc::fork() };
    if pid == 0 {
        let root = run_dir.join("root");
        let _ = std::fs::remove_dir_all(&root);
        std::fs::create_dir_all(&root).unwrap();
        std::env::set_current_dir(&root).unwrap();
        let code = match std::panic::catch_unwind(std::panic::AssertUnwindSafe(|| build())) {
            Ok(Ok(mut w)) => {
                let fp = model.fingerprint(&w);
                shared.insert(fp, 0);
                shared.header().states.fetch_add(1, Ordering::SeqCst);
                shared.header().per_depth_new[0].fetch_add(1, Ordering::SeqCst);
                let mut path = Vec::new();
                explore(&ctx, model, &mut w, &mut path, 0, false);
                0
            }
            Ok(Err(e)) => {
                eprintln!("e1: world build failed: {e}");
                3
            }
            Err(p) => {
                eprintln!("e1: world build panicked: {}", panic_message(&p));
                3
            }
        };
        let _ = std::env::set_current_dir("/");
        let _ = std::fs::remove_dir_all(&root);
        unsafe { libc::_exit(code) };
    }
    let mut status = 0;
    unsafe { libc::waitpid(pid, &mut status, 0) };
    let hdr = shared.header();
    if !(libc::WIFEXITED(status) && libc::WEXITSTATUS(status) == 0) {
        hdr.machinery_errors.fetch_add(1, Ordering::SeqCst);
    }
    RunStats {
        config: config_name.to_string(),
        depth: max_depth,
        completed: hdr.cap_hit.load(Ordering::SeqCst) == 0
            && hdr.machinery_errors.load(Ordering::SeqCst) == 0,
        states: hdr.states.load(Ordering::SeqCst),
        transitions: hdr.transitions.load(Ordering::SeqCst),
        changed: hdr.changed.load(Ordering::SeqCst),
        rejected_ops: hdr.rejected.load(Ordering::SeqCst),
        pruned: hdr.pruned.load(Ordering::SeqCst),
        violations: hdr.violations.load(Ordering::SeqCst),
        machinery_errors: hdr.machinery_errors.load(Ordering::SeqCst),
        fatal_seen: hdr.fatal_seen.load(Ordering::SeqCst),
        per_depth_new: hdr.per_depth_new[..=max_depth.min(MAX_DEPTHS - 1)]
            .iter()
            .map(|a| a.load(Ordering::SeqCst))
            .collect(),
        counters: hdr.counters.iter().map(|a| a.load(Ordering::SeqCst)).collect(),
        wall_s: t0.elapsed().as_secs_f64(),
    }
}

pub fn read_violations(run_dir: &Path) -> Vec<Violation> {
    let mut res = Vec::new();
    let dir = run_dir.join("violations");
    if let Ok(rd) = std::fs::read_dir(&dir) {
        let mut files: Vec<_> = rd.filter_map(|e| e.ok()).map(|e| e.path()).collect();
        files.sort();
        for f in files {
            if let Ok(bytes) = std::fs::read(&f)
                && let Ok(v) = serde_json::from_slice::<Violation>(&bytes)
            {
                res.push(v);
            }
        }
    }
    res
}

pub fn read_samples(run_dir: &Path) -> Vec<serde_json::Value> {
    let mut res = Vec::new();
    if let Ok(text) = std::fs::read_to_string(run_dir.join("samples.jsonl")) {
        for line in text.lines() {
            if let Ok(v) = serde_json::from_str(line) {
                res.push(v);
            }
        }
    }
    res
}

pub fn deadline_in(secs: u64) -> Instant {
    Instant::now() + Duration::from_secs(secs)
}
