//! Driver for E1 checks: iterative deepening over configurations, violation
//! collection, confirmation by replay, evidence.

use std::path::PathBuf;
use std::time::{Duration, Instant};

use serde_json::json;

use crate::e1::{self, Model, RunStats, Shared, Violation};
use crate::report::{Finding, Outcome};
use crate::world::World;

pub struct Config<M> {
    pub name: String,
    pub build: Box<dyn Fn() -> Result<World, String>>,
    pub model: M,
}

pub struct Spec<M> {
    pub property: String,
    pub configs: Vec<Config<M>>,
    /// depth to reach (iterative deepening 1..=depth)
    pub depth: usize,
    /// wall cap for the whole check in seconds
    pub wall_cap_s: u64,
    pub procs: usize,
    /// floor on distinct states at the final completed depth (vacuity guard)
    pub min_states: u64,
}

pub fn scratch_root() -> PathBuf {
    let base = if std::path::Path::new("/dev/shm").is_dir() {
        PathBuf::from("/dev/shm")
    } else {
        std::env::temp_dir()
    };
    base.join(format!("kverif-{}", std::process::id()))
}

pub struct ScratchGuard(pub PathBuf);
impl Drop for ScratchGuard {
    fn drop(&mut self) {
        let _ = std::fs::remove_dir_all(&self.0);
    }
}

/// Replays a violation's op list on a fresh world; returns the violations
/// (kind, detail) observed at each step.
pub fn replay_ops<M: Model>(
    build: &dyn Fn() -> Result<World, String>,
    model: &mut M,
    ops: &[crate::ops::Op],
    shared: &Shared,
) -> Result<Vec<(usize, String, String)>, String> {
    let mut w = build()?;
    let mut seen = Vec::new();
    let mut path = Vec::new();
    for (i, op) in ops.iter().enumerate() {
        // the explorer asks for the alphabet in every state before expanding
        // it (models may prime path-carried monitors there)
        let _ = model.alphabet(&w, i, &path);
        path.push(op.clone());
        let r = std::panic::catch_unwind(std::panic::AssertUnwindSafe(|| {
            let out = model.apply(&mut w, op);
            model.check(&mut w, &path, &out, shared.header())
        }));
        match r {
            Ok(v) => {
                for (k, d) in v {
                    seen.push((i, k, d));
                }
            }
            Err(p) => {
                seen.push((i, "panic".into(), e1::panic_message(&p)));
                break;
            }
        }
    }
    Ok(seen)
}

/// Runs `f` in a forked child inside a fresh scratch dir; returns its JSON
/// result written to a pipe-file.
pub fn in_child<T: serde::Serialize + serde::de::DeserializeOwned>(
    dir: &std::path::Path,
    f: impl FnOnce() -> T,
) -> Option<T> {
    let _ = std::fs::remove_dir_all(dir);
    std::fs::create_dir_all(dir).ok()?;
    let out_file = dir.with_extension("out.json");
    let _ = std::fs::remove_file(&out_file);
    use std::io::Write;
    let _ = std::io::stdout().flush();
    let pid = unsafe { libc::fork() };
    if pid == 0 {
        let _ = std::env::set_current_dir(dir);
        let r = std::panic::catch_unwind(std::panic::AssertUnwindSafe(f));
        let code = match r {
            Ok(v) => {
                let _ = std::fs::write(&out_file, serde_json::to_vec(&v).unwrap());
                0
            }
            Err(_) => 4,
        };
        unsafe { libc::_exit(code) };
    }
    let mut status = 0;
    unsafe { libc::waitpid(pid, &mut status, 0) };
    let _ = std::fs::remove_dir_all(dir);
    let bytes = std::fs::read(&out_file).ok()?;
    let _ = std::fs::remove_file(&out_file);
    serde_json::from_slice(&bytes).ok()
}

/// `--replay <file>`: re-execute a recorded violation without the explorer,
/// printing what every step does. Exit code 1 if the violation recurs.
fn replay_mode<M: Model + Clone>(spec: &Spec<M>, file: &str) -> i32 {
    let bytes = match std::fs::read(file) {
        Ok(b) => b,
        Err(e) => {
            eprintln!("cannot read {file}: {e}");
            return 2;
        }
    };
    let v: Violation = match serde_json::from_slice(&bytes) {
        Ok(v) => v,
        Err(e) => {
            eprintln!("cannot parse {file}: {e}");
            return 2;
        }
    };
    let Some(cfg) = spec.configs.iter().find(|c| c.name == v.config) else {
        eprintln!("unknown configuration {} (tier mismatch? try --tier thorough)", v.config);
        return 2;
    };
    let root = scratch_root();
    let _guard = ScratchGuard(root.clone());
    let dir = root.join("replay");
    let _ = std::fs::remove_dir_all(&dir);
    std::fs::create_dir_all(&dir).unwrap();
    std::env::set_current_dir(&dir).unwrap();
    let shared = Shared::new();
    let mut model = cfg.model.clone();
    let mut w = match (cfg.build)() {
        Ok(w) => w,
        Err(e) => {
            eprintln!("world build failed: {e}");
            return 2;
        }
    };
    let mut path = Vec::new();
    let mut hit = false;
    for (i, op) in v.ops.iter().enumerate() {
        let _ = model.alphabet(&w, i, &path);
        path.push(op.clone());
        let r = std::panic::catch_unwind(std::panic::AssertUnwindSafe(|| {
            let out = model.apply(&mut w, op);
            let viol = model.check(&mut w, &path, &out, shared.header());
            (out, viol)
        }));
        match r {
            Ok((out, viol)) => {
                println!("step {i}: {op}\n   ok={} err={:?} fatal={:?}\n   tasks={:?}", out.ok, out.err, out.fatal, out.tasks);
                for (k, d) in viol {
                    println!("   VIOLATION {k}: {d}");
                    if format!("{}|{}", k, e1::normalize(&d)) == v.signature() {
                        hit = true;
                    }
                }
            }
            Err(p) => {
                println!("step {i}: {op}\n   PANIC {}", e1::panic_message(&p));
                if v.kind == "panic" {
                    hit = true;
                }
                break;
            }
        }
    }
    let _ = std::env::set_current_dir("/");
    if hit {
        println!("VIOLATION property={} replay={}", spec.property, file);
        1
    } else {
        println!("recorded violation did not recur");
        0
    }
}

pub fn run<M: Model + Clone>(spec: Spec<M>, out: &mut Outcome) {
    let args: Vec<String> = std::env::args().collect();
    if let Some(file) = crate::report::arg_value(&args, "--replay") {
        std::process::exit(replay_mode(&spec, &file));
    }
    let root = scratch_root();
    let _guard = ScratchGuard(root.clone());
    let _ = std::fs::remove_dir_all(&root);
    std::fs::create_dir_all(&root).unwrap();
    let shared = Shared::new();
    let t0 = Instant::now();
    let deadline = t0 + Duration::from_secs(spec.wall_cap_s);
    let mut all_stats: Vec<RunStats> = Vec::new();
    let mut completed_depth: Vec<(String, usize)> = Vec::new();
    let mut all_viol: Vec<(usize, Violation)> = Vec::new();
    let mut samples: Vec<serde_json::Value> = Vec::new();
    let mut total_states = 0u64;
    let mut total_trans = 0u64;
    let n_cfg = spec.configs.len().max(1) as u32;

    // determinism self-check: depth-2 exploration twice, counts must agree
    if let Some(cfg) = spec.configs.first() {
        let d = spec.depth.min(2);
        let mut a = cfg.model.clone();
        let mut b = cfg.model.clone();
        let r1 = e1::run_once(
            &spec.property, &cfg.name, &shared, &root.join("det1"), d,
            spec.procs, deadline, cfg.build.as_ref(), &mut a,
        );
        let r2 = e1::run_once(
            &spec.property, &cfg.name, &shared, &root.join("det2"), d,
            spec.procs, deadline, cfg.build.as_ref(), &mut b,
        );
        if (r1.states, r1.transitions, r1.violations)
            != (r2.states, r2.transitions, r2.violations)
        {
            out.machinery_errors.push(format!(
                "determinism self-check failed at depth {d}: run1 states={} transitions={} violations={}; run2 states={} transitions={} violations={}",
                r1.states, r1.transitions, r1.violations,
                r2.states, r2.transitions, r2.violations
            ));
        }
        let _ = std::fs::remove_dir_all(root.join("det1"));
        let _ = std::fs::remove_dir_all(root.join("det2"));
    }

    for (ci, cfg) in spec.configs.iter().enumerate() {
        // each config gets an equal share of the remaining wall time
        let remaining = deadline.saturating_duration_since(Instant::now());
        let share = remaining / (n_cfg - ci as u32);
        let cfg_deadline = Instant::now() + share;
        let mut done_depth = 0;
        for d in 1..=spec.depth {
            if Instant::now() >= cfg_deadline {
                break;
            }
            let run_dir = root.join(format!("c{ci}d{d}"));
            let mut model = cfg.model.clone();
            let stats = e1::run_once(
                &spec.property, &cfg.name, &shared, &run_dir, d, spec.procs,
                cfg_deadline, cfg.build.as_ref(), &mut model,
            );
            let viol = e1::read_violations(&run_dir);
            let smp = e1::read_samples(&run_dir);
            let _ = std::fs::remove_dir_all(&run_dir);
            eprintln!(
                "[{}] cfg={} depth={} states={} trans={} changed={} rejected={} pruned={} viol={} mach={} completed={} {:.1}s",
                spec.property, cfg.name, d, stats.states, stats.transitions,
                stats.changed, stats.rejected_ops, stats.pruned, stats.violations,
                stats.machinery_errors, stats.completed, stats.wall_s
            );
            if stats.machinery_errors > 0 {
                out.machinery_errors.push(format!(
                    "cfg {} depth {}: {} machinery errors (abnormal child exits)",
                    cfg.name, d, stats.machinery_errors
                ));
            }
            let completed = stats.completed;
            if completed || d == 1 {
                // keep the stats of the deepest completed iteration (or the
                // partial first one)
                if completed {
                    done_depth = d;
                }
            }
            if d == spec.depth || !completed || !viol.is_empty() {
                samples.extend(smp.into_iter().take(6));
            }
            total_states = total_states.max(0) + if completed && d == spec.depth { stats.states } else { 0 };
            let found = !viol.is_empty();
            for v in viol {
                all_viol.push((ci, v));
            }
            all_stats.push(stats);
            if !completed || found {
                // a found violation at depth d is a shortest one; deeper
                // iterations would only find the same again
                break;
            }
        }
        completed_depth.push((cfg.name.clone(), done_depth));
    }
    // totals: last completed run per config
    total_states = 0;
    for (name, d) in &completed_depth {
        if let Some(s) = all_stats
            .iter()
            .rev()
            .find(|s| &s.config == name && s.depth == *d && s.completed)
        {
            total_states += s.states;
            total_trans += s.transitions;
        }
    }

    // group violations by (signature, known-finding match), keep shortest.
    // The known-finding match is evaluated per violation on
    // "kind|detail @ history", so that an unknown history with the same
    // symptom is never hidden behind a known one.
    let known = crate::report::load_known();
    let full_sig = |v: &Violation| {
        format!("{} @ {}", v.signature(), crate::ops::compact_path(&v.ops))
    };
    let known_idx = |v: &Violation| -> Option<usize> {
        let fs = full_sig(v);
        known
            .iter()
            .position(|k| k.property == spec.property && k.sig.is_match(&fs))
    };
    let mut groups: Vec<(usize, Violation, usize, Option<usize>)> = Vec::new();
    for (ci, v) in all_viol {
        let sig = v.signature();
        let ki = known_idx(&v);
        if let Some(g) = groups
            .iter_mut()
            .find(|g| g.1.signature() == sig && g.3 == ki)
        {
            g.2 += 1;
            if v.ops.len() < g.1.ops.len() {
                g.0 = ci;
                g.1 = v;
            }
        } else {
            groups.push((ci, v, 1, ki));
        }
    }
    // confirm each by replay in a fresh process
    let mut validated = 0u64;
    for (ci, v, count, _ki) in &groups {
        let cfg = &spec.configs[*ci];
        let sig = v.signature();
        let dir = root.join("replay");
        let ops = v.ops.clone();
        let mut model = cfg.model.clone();
        let res: Option<Result<Vec<(usize, String, String)>, String>> =
            in_child(&dir, || replay_ops(cfg.build.as_ref(), &mut model, &ops, &shared));
        let reproduced = match &res {
            Some(Ok(seen)) => seen.iter().any(|(_, k, d)| {
                format!("{}|{}", k, e1::stable_detail(k, d)) == sig
            }),
            _ => false,
        };
        if reproduced {
            validated += 1;
            out.findings.push(Finding {
                signature: full_sig(v),
                text: format!(
                    "[{}] {}: {} (after {} ops, {} occurrences) ops={}",
                    v.config,
                    v.kind,
                    v.detail,
                    v.ops.len(),
                    count,
                    serde_json::to_string(&v.ops).unwrap()
                ),
                replay: serde_json::to_value(v).unwrap(),
            });
        } else {
            out.machinery_errors.push(format!(
                "violation not reproducible on replay: {} ops={} replay={:?}",
                sig,
                serde_json::to_string(&v.ops).unwrap(),
                res
            ));
        }
    }

    let min_completed = completed_depth.iter().map(|c| c.1).min().unwrap_or(0);
    // (only where the search was not cut short by its wall cap: on a slow
    // machine a small count says nothing about the harness)
    if groups.is_empty() && total_states < spec.min_states && all_stats.iter().all(|s| s.completed) {
        out.machinery_errors.push(format!(
            "vacuity guard: only {} distinct states (floor {})",
            total_states, spec.min_states
        ));
    }
    let cap_hit = all_stats.iter().any(|s| !s.completed);
    let previous = std::mem::take(&mut out.coverage);
    out.coverage = json!({
        "states": total_states,
        "transitions": total_trans,
        "traces_validated_against_impl": total_trans,
        "violations_confirmed_by_replay": validated,
        "samples": samples,
        "exhaustive": !cap_hit && min_completed >= spec.depth,
        "depth_target": spec.depth,
        "depth_completed_per_config": completed_depth
            .iter()
            .map(|(n, d)| json!({"config": n, "depth": d}))
            .collect::<Vec<_>>(),
        "cap_hit": cap_hit,
        "wall_cap_s": spec.wall_cap_s,
        "runs": all_stats,
        "projection": crate::fingerprint::PROJECTION_VERSION,
        "explanation": "every transition is the real krill code applied to a forked copy of the real state; states/transitions are those of the deepest completed iteration per configuration",
    });
    // a check may call `run` more than once (configurations with their own
    // depth): add up
    if previous.get("runs").is_some() {
        let cur = out.coverage.clone();
        let c = out.coverage.as_object_mut().unwrap();
        for k in ["states", "transitions", "traces_validated_against_impl", "violations_confirmed_by_replay"] {
            c.insert(k.into(), json!(previous[k].as_u64().unwrap_or(0) + cur[k].as_u64().unwrap_or(0)));
        }
        for k in ["samples", "depth_completed_per_config", "runs"] {
            let mut a = previous[k].as_array().cloned().unwrap_or_default();
            a.extend(cur[k].as_array().cloned().unwrap_or_default());
            c.insert(k.into(), json!(a));
        }
        c.insert("exhaustive".into(), json!(previous["exhaustive"].as_bool().unwrap_or(false) && cur["exhaustive"].as_bool().unwrap_or(false)));
        c.insert("cap_hit".into(), json!(previous["cap_hit"].as_bool().unwrap_or(false) || cur["cap_hit"].as_bool().unwrap_or(false)));
        c.insert("depth_target".into(), json!([previous["depth_target"].clone(), cur["depth_target"].clone()]));
        c.insert("wall_cap_s".into(), json!(previous["wall_cap_s"].as_u64().unwrap_or(0) + cur["wall_cap_s"].as_u64().unwrap_or(0)));
    }
}
