//! Engine E2: a controlled scheduler over real threads of real krill code.
//!
//! Worker threads run operations of the real runtime. At every lock hand-off
//! that krill reports through hook H2 (key-value scope locks of both
//! back-ends) the thread parks; the controller decides which parked thread
//! goes next, modelling the reported locks so that it never resumes a thread
//! whose lock is held. Locks that are not reported (std mutexes around
//! caches, the repository update lock) are handled by a watchdog: a thread
//! that neither parks nor finishes for a while is treated as blocked and the
//! others may proceed.
//!
//! Exploration is stateless depth-first search over the choice points, with
//! a preemption bound (switching away from a thread that could continue
//! costs one), every execution re-run from the same initial state.

use std::cell::Cell;
use std::collections::HashMap;
use std::sync::{Arc, Condvar, Mutex};
use std::time::{Duration, Instant};

use krill::commons::verif::SyncOp;
use serde::{Deserialize, Serialize};

thread_local! {
    static TID: Cell<Option<usize>> = const { Cell::new(None) };
}

#[derive(Clone, Debug, PartialEq)]
enum St {
    NotStarted,
    Running,
    /// parked before acquiring (`write`, lock id); empty id = thread start
    Parked(bool, String),
    Finished,
}

struct Inner {
    st: Vec<St>,
    go: Vec<bool>,
    /// running, but found to make no progress (inside an unreported or a
    /// probed lock); cleared when the thread reaches a point again
    stuck: Vec<bool>,
    /// lock id -> (writer, readers)
    locks: HashMap<String, (Option<usize>, Vec<usize>)>,
    last_progress: Instant,
    events: u64,
}

pub struct Sched {
    inner: Mutex<Inner>,
    cv: Condvar,
}

static SCHED: Mutex<Option<Arc<Sched>>> = Mutex::new(None);

fn current() -> Option<Arc<Sched>> {
    SCHED.lock().ok().and_then(|g| g.clone())
}

fn hook(op: SyncOp, id: &str) {
    let Some(tid) = TID.with(|t| t.get()) else { return };
    let Some(s) = current() else { return };
    match op {
        SyncOp::Release => {
            let mut g = s.inner.lock().unwrap();
            if let Some((w, r)) = g.locks.get_mut(id) {
                if *w == Some(tid) {
                    *w = None;
                } else if let Some(p) = r.iter().position(|x| *x == tid) {
                    r.remove(p);
                }
            }
            g.last_progress = Instant::now();
            g.events += 1;
            s.cv.notify_all();
        }
        SyncOp::AcquireRead | SyncOp::AcquireWrite => {
            s.park(tid, op == SyncOp::AcquireWrite, id.to_string());
        }
    }
}

impl Sched {
    fn park(&self, tid: usize, write: bool, id: String) {
        let mut g = self.inner.lock().unwrap();
        g.st[tid] = St::Parked(write, id);
        g.stuck[tid] = false;
        g.last_progress = Instant::now();
        g.events += 1;
        self.cv.notify_all();
        while !g.go[tid] {
            g = self.cv.wait(g).unwrap();
        }
        g.go[tid] = false;
        g.st[tid] = St::Running;
        g.last_progress = Instant::now();
    }

    fn finish(&self, tid: usize) {
        let mut g = self.inner.lock().unwrap();
        g.st[tid] = St::Finished;
        g.stuck[tid] = false;
        // a finished thread holds nothing
        for (_, (w, r)) in g.locks.iter_mut() {
            if *w == Some(tid) {
                *w = None;
            }
            r.retain(|x| *x != tid);
        }
        g.last_progress = Instant::now();
        g.events += 1;
        self.cv.notify_all();
    }
}

#[derive(Clone, Debug, Default, Serialize, Deserialize)]
pub struct Choice {
    /// thread ids that could be resumed, in canonical order
    pub enabled: Vec<usize>,
    pub chosen: usize,
    /// lock each enabled thread is about to take (for reports)
    pub what: Vec<String>,
    /// how many of `enabled` (the first ones) can take their lock according
    /// to the reported lock states; the others are probes of the real lock
    #[serde(default)]
    pub grantable: usize,
}

#[derive(Clone, Debug, Default, Serialize, Deserialize)]
pub struct RunResult {
    pub trace: Vec<Choice>,
    /// Some(description) if the threads cannot all complete
    pub deadlock: Option<String>,
    /// what each thread body returned
    pub outputs: Vec<Vec<String>>,
    /// a prefix choice was out of range (the run is not a faithful replay)
    pub diverged: bool,
    pub watchdog_fired: u32,
}

/// Runs the thread bodies under the schedule given by `prefix` (indices into
/// the canonical enabled list at each choice point; beyond the prefix always
/// choice 0, i.e. keep running the same thread / lowest id).
pub fn run_schedule(bodies: Vec<Box<dyn FnOnce() -> Vec<String> + Send>>, prefix: &[usize], watchdog_ms: u64) -> RunResult {
    run_schedule_opt(bodies, prefix, watchdog_ms, true)
}

/// With `trust_reports = false` the reported lock states are not used to
/// decide who may be resumed: every parked thread is a candidate and the real
/// locks do the blocking (found by the watchdog). Slower, but it does not
/// take the reports' word for the exclusion.
pub fn run_schedule_opt(bodies: Vec<Box<dyn FnOnce() -> Vec<String> + Send>>, prefix: &[usize], watchdog_ms: u64, trust_reports: bool) -> RunResult {
    let n = bodies.len();
    let sched = Arc::new(Sched {
        inner: Mutex::new(Inner {
            st: vec![St::NotStarted; n],
            go: vec![false; n],
            stuck: vec![false; n],
            locks: HashMap::new(),
            last_progress: Instant::now(),
            events: 0,
        }),
        cv: Condvar::new(),
    });
    *SCHED.lock().unwrap() = Some(sched.clone());
    krill::commons::verif::set_sync_hook(Some(Arc::new(hook)));
    let outputs: Arc<Mutex<Vec<Vec<String>>>> = Arc::new(Mutex::new(vec![Vec::new(); n]));
    let mut handles = Vec::new();
    for (tid, body) in bodies.into_iter().enumerate() {
        let s = sched.clone();
        let outs = outputs.clone();
        handles.push(std::thread::spawn(move || {
            TID.with(|t| t.set(Some(tid)));
            s.park(tid, false, String::new());
            let r = std::panic::catch_unwind(std::panic::AssertUnwindSafe(body));
            let v = match r {
                Ok(v) => v,
                Err(p) => vec![format!("PANIC: {}", crate::e1::panic_message(&p))],
            };
            outs.lock().unwrap()[tid] = v;
            s.finish(tid);
        }));
    }
    let mut res = RunResult::default();
    let mut last_run: Option<usize> = None;
    let watchdog = Duration::from_millis(watchdog_ms);
    let hard_deadline = Instant::now() + Duration::from_secs(120);
    loop {
        let mut g = sched.inner.lock().unwrap();
        // wait until nobody is (visibly) running, or the watchdog fires
        loop {
            let running = g.st.iter().enumerate().filter(|(i, s)| matches!(s, St::Running | St::NotStarted) && !g.stuck[*i]).count();
            if running == 0 {
                break;
            }
            let idle = g.last_progress.elapsed();
            if idle >= watchdog {
                // whoever is still running is stuck somewhere
                for i in 0..n {
                    if matches!(g.st[i], St::Running) {
                        g.stuck[i] = true;
                    }
                }
                break;
            }
            let (g2, _) = sched.cv.wait_timeout(g, watchdog - idle).unwrap();
            g = g2;
        }
        if g.st.iter().all(|s| *s == St::Finished) {
            break;
        }
        if Instant::now() > hard_deadline {
            res.deadlock = Some("execution did not finish within 120 s".into());
            break;
        }
        let blocked_running: Vec<usize> = g.st.iter().enumerate().filter(|(_, s)| matches!(s, St::Running)).map(|(i, _)| i).collect();
        // parked threads whose lock can be granted
        let mut enabled: Vec<usize> = Vec::new();
        let mut not_grantable: Vec<usize> = Vec::new();
        for (tid, s) in g.st.iter().enumerate() {
            if let St::Parked(write, id) = s {
                let ok = if id.is_empty() {
                    true
                } else {
                    match g.locks.get(id) {
                        None => true,
                        Some((w, r)) => {
                            if *write {
                                w.is_none() && r.iter().all(|x| *x == tid)
                            } else {
                                w.is_none() || *w == Some(tid)
                            }
                        }
                    }
                };
                if ok {
                    enabled.push(tid);
                } else {
                    not_grantable.push(tid);
                }
            }
        }
        let n_grantable = enabled.len();
        if enabled.is_empty() {
            if !blocked_running.is_empty() {
                // somebody is inside an unreported lock or simply slow: if it
                // has been silent for long, and nobody can be resumed, that
                // is a deadlock
                if g.last_progress.elapsed() > Duration::from_secs(10) {
                    res.deadlock = Some(format!(
                        "threads {blocked_running:?} make no progress and no parked thread can be resumed; states {:?}",
                        g.st
                    ));
                    break;
                }
                drop(g);
                std::thread::sleep(Duration::from_millis(5));
                continue;
            }
            res.deadlock = Some(format!("no thread can be resumed: states {:?}, locks {:?}", g.st, g.locks));
            break;
        }
        if !blocked_running.is_empty() {
            res.watchdog_fired += 1;
            if std::env::var("VERIF_DEBUG").is_ok() {
                eprintln!("WATCHDOG running={blocked_running:?} states={:?} locks={:?}", g.st, g.locks);
            }
        }
        // canonical order: the thread that ran last first
        if let Some(l) = last_run {
            if let Some(p) = enabled.iter().position(|x| *x == l) {
                enabled.remove(p);
                enabled.insert(0, l);
            }
        }
        // without trust in the reports, threads whose lock is reported held
        // are candidates too (after the others): resuming one probes the
        // real lock
        if !trust_reports && n_grantable > 0 {
            enabled.extend(not_grantable.iter().copied());
        }
        let k = res.trace.len();
        let mut chosen = if k < prefix.len() { prefix[k] } else { 0 };
        if chosen >= enabled.len() {
            res.diverged = true;
            chosen = 0;
        }
        let what: Vec<String> = enabled
            .iter()
            .map(|t| match &g.st[*t] {
                St::Parked(w, id) => format!("{}{}", if *w { "W " } else { "R " }, if id.is_empty() { "start" } else { id.rsplit('/').next().unwrap_or(id) }),
                _ => String::new(),
            })
            .collect();
        res.trace.push(Choice { enabled: enabled.clone(), chosen, what, grantable: n_grantable });
        let tid = enabled[chosen];
        let probing = chosen >= n_grantable;
        if let St::Parked(write, id) = g.st[tid].clone() {
            if !id.is_empty() && !probing {
                let e = g.locks.entry(id).or_insert((None, Vec::new()));
                if write {
                    e.0 = Some(tid);
                } else {
                    e.1.push(tid);
                }
            }
        }
        g.st[tid] = St::Running;
        g.go[tid] = true;
        g.last_progress = Instant::now();
        last_run = Some(tid);
        sched.cv.notify_all();
    }
    if res.deadlock.is_none() {
        for h in handles {
            let _ = h.join();
        }
    }
    krill::commons::verif::set_sync_hook(None);
    *SCHED.lock().unwrap() = None;
    res.outputs = outputs.lock().unwrap().clone();
    res
}

/// Number of preemptions in a trace: a choice other than index 0 while the
/// thread that ran last is still first in the list.
pub fn preemptions(trace: &[Choice]) -> usize {
    let mut last: Option<usize> = None;
    let mut n = 0;
    for c in trace {
        let tid = c.enabled[c.chosen];
        if let Some(l) = last {
            if c.enabled.first() == Some(&l) && tid != l {
                n += 1;
            }
        }
        last = Some(tid);
    }
    n
}

#[derive(Clone, Debug, Default, Serialize, Deserialize)]
pub struct ExecOutcome {
    pub result: RunResult,
    pub violations: Vec<(String, String)>,
    /// a canonical description of what was observed (to count distinct outcomes)
    pub outcome: String,
}

pub struct ExploreStats {
    pub executions: u64,
    pub choice_points: u64,
    pub max_trace: usize,
    pub distinct_outcomes: std::collections::BTreeMap<String, u64>,
    pub violations: Vec<(Vec<usize>, String, String, RunResult)>,
    pub machinery: Vec<String>,
    pub capped: bool,
    pub watchdog_fired: u64,
    pub diverged: u64,
    /// a few executed schedules: (prefix, which thread took which lock in order, outputs)
    pub samples: Vec<serde_json::Value>,
}

/// Depth-first exploration with a preemption bound. `exec` is run in a forked
/// child process for every schedule (the child changes into a fresh scratch
/// directory first).
pub fn explore(
    root: &std::path::Path,
    bound: usize,
    max_execs: u64,
    procs: usize,
    wall_cap: Duration,
    probe_only: bool,
    exec: &(dyn Fn(&[usize]) -> ExecOutcome + Sync),
) -> ExploreStats {
    use std::io::Write;
    let mut stats = ExploreStats {
        executions: 0,
        choice_points: 0,
        max_trace: 0,
        distinct_outcomes: Default::default(),
        violations: Vec::new(),
        machinery: Vec::new(),
        capped: false,
        watchdog_fired: 0,
        diverged: 0,
        samples: Vec::new(),
    };
    let t0 = Instant::now();
    let mut stack: Vec<Vec<usize>> = vec![vec![]];
    let mut running: Vec<(libc::pid_t, Vec<usize>, std::path::PathBuf, std::path::PathBuf)> = Vec::new();
    let mut serial = 0u64;
    loop {
        while running.len() < procs && !stack.is_empty() {
            if stats.executions + running.len() as u64 >= max_execs || t0.elapsed() > wall_cap {
                stats.capped = true;
                stack.clear();
                break;
            }
            let prefix = stack.pop().unwrap();
            serial += 1;
            let dir = root.join(format!("x{serial}"));
            let outf = root.join(format!("x{serial}.json"));
            std::fs::create_dir_all(&dir).unwrap();
            let _ = std::io::stdout().flush();
            let pid = unsafe { libc::fork() };
            if pid == 0 {
                std::env::set_current_dir(&dir).unwrap();
                let r = std::panic::catch_unwind(std::panic::AssertUnwindSafe(|| exec(&prefix)));
                if let Ok(o) = r {
                    let _ = std::fs::write(&outf, serde_json::to_vec(&o).unwrap());
                }
                unsafe { libc::_exit(0) };
            }
            running.push((pid, prefix, outf, dir));
        }
        if running.is_empty() {
            break;
        }
        // reap one
        let mut st = 0;
        let pid = unsafe { libc::wait(&mut st) };
        let Some(pos) = running.iter().position(|r| r.0 == pid) else { continue };
        let (_, prefix, outf, dir) = running.remove(pos);
        let _ = std::fs::remove_dir_all(&dir);
        let out: Option<ExecOutcome> = std::fs::read(&outf).ok().and_then(|b| serde_json::from_slice(&b).ok());
        let _ = std::fs::remove_file(&outf);
        stats.executions += 1;
        let Some(out) = out else {
            stats.machinery.push(format!("execution with prefix {prefix:?} produced no result (status {st:#x})"));
            continue;
        };
        // An execution whose prefix could not be followed (possible only
        // where a thread sat in an unreported lock, which the watchdog
        // resolves by time) is still an execution of the real code: it is
        // judged, but not expanded, and counted.
        let diverged = out.result.diverged;
        if diverged {
            stats.diverged += 1;
        }
        stats.choice_points += out.result.trace.len() as u64;
        stats.max_trace = stats.max_trace.max(out.result.trace.len());
        stats.watchdog_fired += out.result.watchdog_fired as u64;
        if stats.samples.len() < 4 && (stats.executions == 1 || stats.executions % 97 == 0) {
            stats.samples.push(serde_json::json!({
                "schedule_prefix": prefix,
                "order": out.result.trace.iter().map(|c| format!("t{} {}", c.enabled[c.chosen], c.what.get(c.chosen).cloned().unwrap_or_default())).collect::<Vec<_>>(),
                "outcome": out.outcome,
            }));
        }
        *stats.distinct_outcomes.entry(out.outcome.clone()).or_default() += 1;
        for (k, d) in &out.violations {
            if stats.violations.len() < 50 {
                stats.violations.push((prefix.clone(), k.clone(), d.clone(), out.result.clone()));
            }
        }
        // children: deviate at every later choice point
        if diverged {
            continue;
        }
        let trace = &out.result.trace;
        // a probe (resuming a thread whose lock is reported held) is a leaf
        let was_probe = prefix.last().zip(trace.get(prefix.len().wrapping_sub(1))).map(|(c, t)| *c >= t.grantable).unwrap_or(false);
        if was_probe {
            continue;
        }
        let mut probed: Vec<usize> = Vec::new();
        for i in prefix.len()..trace.len() {
            for alt in 1..trace[i].enabled.len() {
                let mut p: Vec<usize> = trace[..i].iter().map(|c| c.chosen).collect();
                p.push(alt);
                if alt >= trace[i].grantable {
                    // probes do not count against the bound; they are leaves;
                    // one per thread and execution (the first opportunity:
                    // later ones probe the same held lock)
                    let tid = trace[i].enabled[alt];
                    if probe_only && !probed.contains(&tid) {
                        probed.push(tid);
                        stack.push(p);
                    }
                    continue;
                }
                // cost of this prefix
                let mut t2: Vec<Choice> = trace[..i].to_vec();
                t2.push(Choice { enabled: trace[i].enabled.clone(), chosen: alt, what: vec![], grantable: trace[i].grantable });
                if preemptions(&t2) <= bound {
                    stack.push(p);
                }
            }
        }
    }
    stats
}
