//! Engine E3: crash-point / failing-write enumeration over the fault points
//! (hook H3): every KV mutation and every file-system mutation.

use std::path::{Path, PathBuf};
use std::sync::atomic::{AtomicI64, AtomicUsize, Ordering};
use std::sync::{Arc, Mutex};

use serde::{Deserialize, Serialize};

#[derive(Clone, Copy, Debug, PartialEq, Eq, Serialize, Deserialize)]
pub enum Mode {
    Count,
    Crash,
    Fail,
}

static COUNTER: AtomicUsize = AtomicUsize::new(0);
static TARGET: AtomicI64 = AtomicI64::new(-1);
static MODE: AtomicUsize = AtomicUsize::new(0);
static LOG: Mutex<Vec<(String, String)>> = Mutex::new(Vec::new());

/// Arms the fault hook: at mutation index `n` (0-based, counted from now)
/// crash (`_exit(77)` *before* performing it) or fail it once.
pub fn arm(mode: Mode, n: usize) {
    COUNTER.store(0, Ordering::SeqCst);
    TARGET.store(if mode == Mode::Count { -1 } else { n as i64 }, Ordering::SeqCst);
    MODE.store(mode as usize, Ordering::SeqCst);
    LOG.lock().unwrap().clear();
    krill::commons::verif::set_fault_hook(Some(Arc::new(|kind, detail| {
        let idx = COUNTER.fetch_add(1, Ordering::SeqCst);
        if let Ok(mut l) = LOG.lock() {
            l.push((kind.to_string(), detail.to_string()));
        }
        let target = TARGET.load(Ordering::SeqCst);
        if target >= 0 && idx as i64 == target {
            match MODE.load(Ordering::SeqCst) {
                1 => unsafe { libc::_exit(77) },
                2 => return true,
                _ => {}
            }
        }
        false
    })));
}

pub fn disarm() -> Vec<(String, String)> {
    krill::commons::verif::set_fault_hook(None);
    TARGET.store(-1, Ordering::SeqCst);
    std::mem::take(&mut *LOG.lock().unwrap())
}

pub fn mutations_so_far() -> usize {
    COUNTER.load(Ordering::SeqCst)
}

pub fn copy_dir(src: &Path, dst: &Path) -> std::io::Result<()> {
    std::fs::create_dir_all(dst)?;
    for entry in std::fs::read_dir(src)? {
        let entry = entry?;
        let name = entry.file_name();
        let ft = entry.file_type()?;
        if ft.is_dir() {
            if name == ".locks" {
                continue;
            }
            if name == ".tmp" {
                std::fs::create_dir_all(dst.join(&name))?;
                continue;
            }
            copy_dir(&entry.path(), &dst.join(&name))?;
        } else if ft.is_file() {
            std::fs::copy(entry.path(), dst.join(&name))?;
        }
    }
    Ok(())
}

/// Forks; the child chdirs into a copy of the current directory and runs
/// `f`; whatever `f` returns is passed back (None if the child died, e.g.
/// by the injected crash). The copy is kept at the returned path.
pub fn fork_in_copy<T: Serialize + for<'a> Deserialize<'a>>(
    tag: &str,
    f: impl FnOnce() -> T,
) -> (Option<T>, i32, PathBuf) {
    use std::io::Write;
    let cwd = std::env::current_dir().unwrap();
    let dir = cwd.with_extension(format!("{tag}-{}", std::process::id()));
    let out_file = PathBuf::from(format!("{}.result.json", dir.display()));
    let _ = std::fs::remove_dir_all(&dir);
    let _ = std::fs::remove_file(&out_file);
    copy_dir(&cwd, &dir).expect("copy");
    let _ = std::io::stdout().flush();
    let pid = unsafe { libc::fork() };
    if pid == 0 {
        let _ = std::env::set_current_dir(&dir);
        let r = std::panic::catch_unwind(std::panic::AssertUnwindSafe(f));
        match r {
            Ok(v) => {
                let _ = std::fs::write(&out_file, serde_json::to_vec(&v).unwrap());
                unsafe { libc::_exit(0) }
            }
            Err(_) => unsafe { libc::_exit(4) },
        }
    }
    let mut status = 0;
    unsafe { libc::waitpid(pid, &mut status, 0) };
    let code = if libc::WIFEXITED(status) { libc::WEXITSTATUS(status) } else { -1 };
    let res = std::fs::read(&out_file).ok().and_then(|b| serde_json::from_slice(&b).ok());
    let _ = std::fs::remove_file(&out_file);
    (res, code, dir)
}

/// Forks; the child chdirs into `dir` (no copy) and runs `f`.
pub fn fork_in_dir<T: Serialize + for<'a> Deserialize<'a>>(
    dir: &Path,
    f: impl FnOnce() -> T,
) -> (Option<T>, i32) {
    use std::io::Write;
    let out_file = PathBuf::from(format!("{}.v-{}.json", dir.display(), std::process::id()));
    let _ = std::fs::remove_file(&out_file);
    let _ = std::io::stdout().flush();
    let pid = unsafe { libc::fork() };
    if pid == 0 {
        let _ = std::env::set_current_dir(dir);
        let r = std::panic::catch_unwind(std::panic::AssertUnwindSafe(f));
        match r {
            Ok(v) => {
                let _ = std::fs::write(&out_file, serde_json::to_vec(&v).unwrap());
                unsafe { libc::_exit(0) }
            }
            Err(_) => unsafe { libc::_exit(4) },
        }
    }
    let mut status = 0;
    unsafe { libc::waitpid(pid, &mut status, 0) };
    let code = if libc::WIFEXITED(status) { libc::WEXITSTATUS(status) } else { -1 };
    let res = std::fs::read(&out_file).ok().and_then(|b| serde_json::from_slice(&b).ok());
    let _ = std::fs::remove_file(&out_file);
    (res, code)
}
