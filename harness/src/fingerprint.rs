//! Canonical projection of a world for state deduplication.
//!
//! The projection keeps everything that can influence future behaviour or an
//! oracle, and drops only: DER blobs and their hashes (the structured fields
//! next to them are kept), serial numbers, signatures, manifest / CRL /
//! aggregate version counters, and the two wall-clock-only fields. Key
//! identifiers are *kept*: with the deterministic key pool they are a function
//! of the allocation order.

use std::hash::{Hash, Hasher};

use serde_json::{Map, Value};

use crate::clock;
use crate::world::World;

pub const PROJECTION_VERSION: &str = "fp-v1: arrays sorted; drop {exchanges(log),cert,size,base64,hash,serial,subject,version,since,last_key_change,number,nonce,session,last_update,last_exchange..timestamps}; keep key ids, validity, resources, names, counts";

const DROP_KEYS: &[&str] = &[
    "base64", "hash", "serial", "subject", "version", "since",
    "last_key_change", "number", "nonce", "session", "signature",
    "timestamp", "last_success", "last_exchange", "last_update", "time",
    "csr", "random", "mft_number", "revision_number", "exchanges", "cert",
    "size",
];

pub fn mask(v: &Value) -> Value {
    match v {
        Value::Object(m) => {
            let mut keys: Vec<&String> = m.keys().collect();
            keys.sort();
            let mut out = Map::new();
            for k in keys {
                if DROP_KEYS.contains(&k.as_str()) {
                    continue;
                }
                out.insert(k.clone(), mask(&m[k]));
            }
            Value::Object(out)
        }
        Value::Array(a) => {
            let mut items: Vec<Value> = a.iter().map(mask).collect();
            // arrays of plain strings / numbers often come from hash-map
            // iteration: sort them
            // (also arrays of objects: e.g. status "published" lists)
            items.sort_by_cached_key(|i| i.to_string());
            Value::Array(items)
        }
        Value::String(s) if s.len() > 120 => {
            // a blob that was not dropped by name: keep a digest
            Value::String(format!("#{:016x}", h64(s.as_bytes(), 0)))
        }
        other => other.clone(),
    }
}

pub fn h64(data: &[u8], salt: u64) -> u64 {
    #[allow(deprecated)]
    let mut h = std::hash::SipHasher::new_with_keys(0x6b72696c6c, salt);
    data.hash(&mut h);
    h.finish()
}

pub fn h128(data: &[u8]) -> (u64, u64) {
    let a = h64(data, 1);
    let b = h64(data, 2);
    (if a == 0 { 1 } else { a }, if b == 0 { 1 } else { b })
}

fn kv_namespace_json(w: &World, ns: &krill::commons::storage::Ident) -> Value {
    // every key of every scope of the namespace, as JSON
    let mut out = Map::new();
    let Ok(kv) = w.krill.storage().open(ns) else {
        return Value::Null;
    };
    let mut scopes: Vec<Option<Box<krill::commons::storage::Ident>>> =
        kv.scopes().unwrap_or_default().into_iter().map(Some).collect();
    scopes.push(None);
    for scope in scopes {
        let mut keys = kv.keys(scope.as_deref(), "").unwrap_or_default();
        keys.sort();
        for key in keys {
            let val: Option<Value> = kv.get(scope.as_deref(), &key).unwrap_or(None);
            out.insert(
                format!(
                    "{}/{}",
                    scope.as_ref().map(|s| s.to_string()).unwrap_or_default(),
                    key
                ),
                val.unwrap_or(Value::Null),
            );
        }
    }
    Value::Object(out)
}

/// Queue projection: (name, running?, due relative to now)
pub fn queue_json(w: &World) -> Value {
    let now = clock::now_millis();
    let mut items = Vec::new();
    for (ts, name) in w.pending_tasks() {
        let rel = (ts as i128 - now) / 1000;
        let rel = if rel <= 0 { 0 } else { rel };
        items.push(Value::String(format!("P:{name}:{rel}")));
    }
    for (_ts, name) in w.running_tasks() {
        items.push(Value::String(format!("R:{name}")));
    }
    items.sort_by_key(|i| i.to_string());
    Value::Array(items)
}

pub fn pubd_json(w: &World) -> Value {
    let mut out = Map::new();
    let rm = w.krill.repo_manager();
    let mut pubs = rm.publishers().unwrap_or_default();
    pubs.sort_by_key(|p| p.to_string());
    for p in pubs {
        let mut files: Vec<String> = Vec::new();
        if let Ok(list) = rm.list(&p) {
            for el in list.elements() {
                files.push(el.uri().to_string());
            }
        }
        files.sort();
        let snapshot_files = rm
            .get_publisher_details(p.clone())
            .map(|d| d.current_files.len())
            .unwrap_or(0);
        out.insert(
            p.to_string(),
            serde_json::json!({"files": files, "in_snapshot": snapshot_files}),
        );
    }
    if let Ok(stats) = rm.repo_stats() {
        let v = serde_json::to_value(&stats).unwrap_or(Value::Null);
        // only structural bits: serial and times are dropped by mask
        out.insert("#stats".into(), mask(&v));
    }
    Value::Object(out)
}

/// The canonical projection of the whole world.
pub fn canonical(w: &World) -> Value {
    let mut out = Map::new();
    let cm = w.krill.ca_manager();
    let mut cas = cm.ca_handles().unwrap_or_default();
    cas.sort_by_key(|c| c.to_string());
    let mut ca_map = Map::new();
    for c in cas {
        if let Ok(ca) = cm.get_ca(&c) {
            ca_map.insert(
                c.to_string(),
                mask(&serde_json::to_value(ca.as_ref()).unwrap_or(Value::Null)),
            );
        }
    }
    out.insert("cas".into(), Value::Object(ca_map));
    if let Ok(p) = cm.get_trust_anchor_proxy() {
        out.insert(
            "ta_proxy".into(),
            mask(&serde_json::to_value(p.as_ref()).unwrap_or(Value::Null)),
        );
    }
    if let Ok(s) = cm.get_trust_anchor_signer() {
        out.insert(
            "ta_signer".into(),
            mask(&serde_json::to_value(s.as_ref()).unwrap_or(Value::Null)),
        );
    }
    out.insert(
        "ca_objects".into(),
        mask(&kv_namespace_json(w, krill::constants::CA_OBJECTS_NS)),
    );
    out.insert(
        "status".into(),
        mask(&kv_namespace_json(w, krill::constants::STATUS_NS)),
    );
    out.insert("pubd".into(), pubd_json(w));
    out.insert("queue".into(), queue_json(w));
    out.insert("clock".into(), Value::from(clock::offset()));
    Value::Object(out)
}

pub fn fingerprint(w: &World) -> (u64, u64) {
    let v = canonical(w);
    h128(v.to_string().as_bytes())
}
