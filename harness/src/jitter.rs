//! Hook H8: the harness decides the jitter krill adds to the next-update
//! time of manifests and CRLs (krill's default configuration draws up to
//! four hours at random per key set). The value is a function of the mode
//! and of how many values were handed out since the last `reset` (the
//! harness resets before every operation), so an operation's effect is a
//! function of the state it is applied to.

use std::sync::atomic::{AtomicU32, Ordering};
use std::sync::Arc;

/// 0: no jitter at all; 1: low, high, low, ...; 2: high, low, high, ...
static MODE: AtomicU32 = AtomicU32::new(0);
static CALLS: AtomicU32 = AtomicU32::new(0);

pub fn install(mode: u32) {
    MODE.store(mode, Ordering::SeqCst);
    CALLS.store(0, Ordering::SeqCst);
    krill::commons::verif::set_choice_hook(Some(Arc::new(|what, bound| {
        if what != "publish_next_jitter_mins" {
            return None;
        }
        let k = CALLS.fetch_add(1, Ordering::SeqCst);
        Some(match MODE.load(Ordering::SeqCst) {
            1 => if k % 2 == 0 { 0 } else { bound - 1 },
            2 => if k % 2 == 0 { bound - 1 } else { 0 },
            _ => 0,
        })
    })));
}

pub fn reset() {
    CALLS.store(0, Ordering::SeqCst);
}

pub fn mode() -> u32 {
    MODE.load(Ordering::SeqCst)
}
