//! Pre-generated RSA key pool (hook H6).
//!
//! Persistent keys (CA / ID keys) are drawn without replacement, so they stay
//! unique along every explored path (forked children inherit the counter).
//! One-off (EE) keys are handed out round-robin from a small sub-pool.

use std::sync::atomic::{AtomicUsize, Ordering};
use std::sync::{Arc, OnceLock};

static PERSISTENT_PEM: &str = include_str!("../keys/persistent.pem");
static ONEOFF_PEM: &str = include_str!("../keys/oneoff.pem");

static NEXT_PERSISTENT: AtomicUsize = AtomicUsize::new(0);
static NEXT_ONEOFF: AtomicUsize = AtomicUsize::new(0);
static REAL_KEYGEN: AtomicUsize = AtomicUsize::new(0);

fn split(pem: &'static str) -> Vec<String> {
    let mut res = Vec::new();
    let mut cur = String::new();
    for line in pem.lines() {
        cur.push_str(line);
        cur.push('\n');
        if line.starts_with("-----END") {
            res.push(std::mem::take(&mut cur));
        }
    }
    res
}

fn pools() -> &'static (Vec<String>, Vec<String>) {
    static POOLS: OnceLock<(Vec<String>, Vec<String>)> = OnceLock::new();
    POOLS.get_or_init(|| (split(PERSISTENT_PEM), split(ONEOFF_PEM)))
}

/// Installs the pool. `enabled = false` removes it (real key generation).
pub fn install(enabled: bool) {
    if !enabled {
        krill::commons::verif::set_key_hook(None);
        return;
    }
    let _ = pools();
    krill::commons::verif::set_key_hook(Some(Arc::new(|persistent| {
        let (p, o) = pools();
        if persistent {
            let i = NEXT_PERSISTENT.fetch_add(1, Ordering::SeqCst);
            if i < p.len() {
                Some(p[i].clone())
            } else {
                REAL_KEYGEN.fetch_add(1, Ordering::SeqCst);
                None
            }
        } else {
            let i = NEXT_ONEOFF.fetch_add(1, Ordering::SeqCst);
            Some(o[i % o.len()].clone())
        }
    })));
}

pub fn persistent_used() -> usize {
    NEXT_PERSISTENT.load(Ordering::SeqCst)
}

/// A key from the pool for harness-side use (e.g. attacker keys, CSRs).
pub fn take_persistent() -> Option<String> {
    let (p, _) = pools();
    let i = NEXT_PERSISTENT.fetch_add(1, Ordering::SeqCst);
    p.get(i).cloned()
}

/// Skips `n` pool keys (used by a process that continues a history whose
/// last steps ran in another process and may have drawn keys there).
pub fn skip(n: usize) {
    NEXT_PERSISTENT.fetch_add(n, Ordering::SeqCst);
}

/// The n-th key of the pool without drawing it (for fixtures that need a
/// known key; use indices near the end, which normal runs never reach).
pub fn nth_persistent(n: usize) -> Option<String> {
    pools().0.get(n).cloned()
}
