pub mod clock;
pub mod keys;
pub mod world;
pub mod rp;
pub mod ops;
pub mod fingerprint;
pub mod e1;
pub mod e1run;
pub mod e2;
pub mod e3;
pub mod report;
pub mod checks;
pub mod cms;
pub mod daemon;
pub mod routes;
pub mod jitter;

fn main() {
    let args: Vec<String> = std::env::args().collect();
    match args.get(1).map(|s| s.as_str()) {
        Some("smoke") => smoke(),
        Some("canon") => {
            // kcheck canon <ops.json> : print canonical state after ops (C01 world)
            init_engine();
            let ops: Vec<ops::Op> = serde_json::from_slice(&std::fs::read(&args[2]).unwrap()).unwrap();
            let dir = std::path::PathBuf::from(format!("/dev/shm/kverif-canon-{}", std::process::id()));
            let _ = std::fs::remove_dir_all(&dir);
            std::fs::create_dir_all(&dir).unwrap();
            std::env::set_current_dir(&dir).unwrap();
            let mut w = checks::c01::build_w3(checks::c01::world_cfg(2, 2)).unwrap();
            for op in &ops {
                let o = w.apply_pumped(op);
                eprintln!("{op} -> err={:?} tasks={:?}", o.err, o.tasks);
                let t = w.settle().unwrap();
                eprintln!("   settle tasks={:?}", t);
                match rp::full_check(&w) { Ok(r) => eprintln!("   RP ok cas={:?}", r.cas.iter().map(|c| format!("{} {}", c.cert_uri.rsplit('/').next().unwrap_or(""), c.resources)).collect::<Vec<_>>()), Err(e) => eprintln!("   RP problems: {e:#?}") }
                for h in w.krill.ca_manager().ca_handles().unwrap() {
                    let c = w.krill.ca_manager().get_ca(&h).unwrap();
                    let info = serde_json::to_value(c.as_ca_info()).unwrap();
                    eprintln!("   {h}: rcs={}", info["resource_classes"].to_string().chars().filter(|c| !c.is_whitespace()).take(0).collect::<String>());
                    for (rcn, rc) in info["resource_classes"].as_object().unwrap() {
                        let ks = &rc["keys"];
                        let kind = ks.as_object().map(|o| o.keys().cloned().collect::<Vec<_>>()).unwrap_or_default();
                        eprintln!("      rc {rcn}: keys={kind:?}");
                    }
                }
            }
            println!("{}", serde_json::to_string_pretty(&fingerprint::canonical(&w)).unwrap());
            let _ = std::env::set_current_dir("/");
            let _ = std::fs::remove_dir_all(&dir);
        }
        Some(id) if id.starts_with('C') => {
            init_engine();
            let tier = report::tier_from_args(&args);
            let code = match id {
                "C01" => checks::c01::run(&tier, &args),
                "C09" => checks::c09::run(&tier, &args),
                "C03" => checks::c03::run(&tier, &args),
                "C02" => checks::c02::run(&tier, &args),
                "C04" => checks::c04::run(&tier, &args),
                "C06" => checks::c06::run(&tier, &args),
                "C05" => checks::c05::run(&tier, &args),
                "C14" => checks::c14::run(&tier, &args),
                "C19" => checks::c19::run(&tier, &args),
                "C10" => checks::pubd::run_c10(&tier, &args),
                "C11" => checks::pubd::run_c11(&tier, &args),
                "C17" => checks::c17::run(&tier, &args),
                "C12" => checks::c12::run(&tier, &args),
                "C16" => checks::c16::run(&tier, &args),
                "C13" => checks::c13::run(&tier, &args),
                "C20" => checks::c20::run(&tier, &args),
                "C15" => checks::c15::run(&tier, &args),
                "C08" => checks::c08::run(&tier, &args),
                "C07" => checks::c07::run(&tier, &args),
                "C18" => checks::c18::run(&tier, &args),
                _ => { eprintln!("unknown property {id}"); 2 }
            };
            std::process::exit(code);
        }
        _ => {
            eprintln!("usage: kcheck <Cxx|smoke> ...");
            std::process::exit(2);
        }
    }
}

/// Common process set-up for all engines: frozen virtual clock, key pool,
/// fatal hook (observe would-be process::exit as a panic), quiet panics.
/// Every panic message seen in this process (also on other threads).
pub static PANICS: std::sync::Mutex<Vec<String>> = std::sync::Mutex::new(Vec::new());

pub fn take_panics() -> Vec<String> {
    PANICS.lock().map(|mut p| std::mem::take(&mut *p)).unwrap_or_default()
}

pub fn init_engine() {
    clock::self_test();
    clock::freeze();
    keys::install(std::env::var("VERIF_REAL_KEYGEN").is_err());
    krill::commons::verif::set_fatal_hook(Some(std::sync::Arc::new(|reason| {
        panic!("KRILL-FATAL(process::exit): {reason}");
    })));
    std::panic::set_hook(Box::new(|info| {
        if let Ok(mut p) = PANICS.lock() {
            if p.len() < 64 {
                p.push(info.to_string());
            }
        }
        if std::env::var("VERIF_PANIC_TRACE").is_ok() {
            eprintln!("panic: {info}");
        }
    }));
}

fn smoke() {
    clock::self_test();
    clock::freeze();
    keys::install(true);
    let dir = std::path::PathBuf::from(format!("/dev/shm/kverif-smoke-{}", std::process::id()));
    let _ = std::fs::remove_dir_all(&dir);
    std::fs::create_dir_all(&dir).unwrap();
    std::env::set_current_dir(&dir).unwrap();
    let t = std::time::Instant::now();
    let w = world::World::build_w3(
        world::WorldCfg::default(),
        world::res("AS65000-AS65005", "10.0.0.0/16, 10.1.0.0/16", "2001:db8::/48"),
        world::res("AS65001", "10.0.0.0/24", ""),
    ).unwrap();
    println!("built W3 in {:?}, keys used {}", t.elapsed(), keys::persistent_used());
    for name in ["ta", "parent", "ca", "gc"] {
        let d = w.krill.repo_manager().get_publisher_details(world::pub_h(name)).unwrap();
        println!("{name}: {} files", d.current_files.len());
        for f in &d.current_files { println!("   {}", f.uri); }
    }
    match rp::full_check(&w) {
        Ok(r) => println!("RP ok: {} cas, {} accepted, vrps {:?}", r.cas.len(), r.accepted.len(), r.vrps),
        Err(e) => println!("RP problems: {e:#?}"),
    }
    let mut w = w;
    let o = w.apply_pumped(&ops::Op::Roa{ca:"ca".into(), add: vec!["10.0.0.0/24 => 65000".into(), "10.0.1.0/24-25 => 65000".into()], del: vec![]});
    println!("roa add: {o:?}");
    let o = w.apply_pumped(&ops::Op::AspaSet{ca:"ca".into(), customer: 65000, providers: vec![65001, 65002]});
    println!("aspa: {o:?}");
    let o = w.apply_pumped(&ops::Op::BgpsecAdd{ca:"ca".into(), asn: 65000, csr: 0});
    println!("bgpsec: {o:?}");
    let o = w.apply_pumped(&ops::Op::BgpsecAdd{ca:"ca".into(), asn: 65000, csr: 1});
    println!("bgpsec1: {o:?}");
    match rp::full_check(&w) {
        Ok(r) => println!("RP ok: {} cas, {} accepted, vrps {:?} aspas {:?} rk {:?}", r.cas.len(), r.accepted.len(), r.vrps, r.aspas, r.router_keys),
        Err(e) => println!("RP problems: {e:#?}"),
    }
    if std::env::var("RMTMP").is_ok() {
        std::fs::remove_dir_all("data/.tmp").unwrap();
        let o = w.apply_pumped(&ops::Op::Roa{ca:"ca".into(), add: vec!["10.0.5.0/24 => 65000".into()], del: vec![]});
        println!("after rm .tmp: {o:?} exists={}", std::path::Path::new("data/.tmp").exists());
    }
    if std::env::var("FPDIFF").is_ok() {
        w.settle().unwrap();
        let a = fingerprint::canonical(&w);
        let o = w.apply_pumped(&ops::Op::Roa{ca:"ca".into(), add: vec![], del: vec!["10.9.0.0/24 => 65000".into()]});
        println!("rejected op: {o:?}");
        w.settle().unwrap();
        let b = fingerprint::canonical(&w);
        fn diff(p: &str, a: &serde_json::Value, b: &serde_json::Value) {
            match (a, b) {
                (serde_json::Value::Object(x), serde_json::Value::Object(y)) => {
                    for (k, v) in x { match y.get(k) { Some(v2) => diff(&format!("{p}/{k}"), v, v2), None => println!("- {p}/{k}") } }
                    for k in y.keys() { if !x.contains_key(k) { println!("+ {p}/{k}"); } }
                }
                _ => if a != b { println!("~ {p}: {} -> {}", a.to_string().chars().take(200).collect::<String>(), b.to_string().chars().take(200).collect::<String>()); }
            }
        }
        diff("", &a, &b);
    }
    if std::env::var("DUMP").is_ok() {
        let c = w.krill.ca_manager().get_ca(&world::ca("ca")).unwrap();
        println!("{}", serde_json::to_string_pretty(c.as_ref()).unwrap());
    }
    println!("pending: {:?}", w.pending_tasks());
    println!("running: {:?}", w.running_tasks());
    let _ = std::env::set_current_dir("/");
    if std::env::var("KEEP").is_err() { let _ = std::fs::remove_dir_all(&dir); } else { println!("kept {}", dir.display()); }
}
