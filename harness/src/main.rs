pub mod clock;
pub mod keys;
pub mod world;

fn main() {
    let args: Vec<String> = std::env::args().collect();
    match args.get(1).map(|s| s.as_str()) {
        Some("smoke") => smoke(),
        _ => {
            eprintln!("usage: kcheck <Cxx|smoke> ...");
            std::process::exit(2);
        }
    }
}

fn smoke() {
    clock::self_test();
    clock::freeze();
    keys::install(true);
    let dir = std::path::PathBuf::from(format!("/dev/shm/kverif-smoke-{}", std::process::id()));
    let _ = std::fs::remove_dir_all(&dir);
    std::fs::create_dir_all(&dir).unwrap();
    std::env::set_current_dir(&dir).unwrap();
    let t = std::time::Instant::now();
    let w = world::World::build_w3(
        world::WorldCfg::default(),
        world::res("AS65000-AS65005", "10.0.0.0/16, 10.1.0.0/16", "2001:db8::/48"),
        world::res("AS65001", "10.0.0.0/24", ""),
    ).unwrap();
    println!("built W3 in {:?}, keys used {}", t.elapsed(), keys::persistent_used());
    for name in ["ta", "parent", "ca", "gc"] {
        let d = w.krill.repo_manager().get_publisher_details(world::pub_h(name)).unwrap();
        println!("{name}: {} files", d.current_files.len());
        for f in &d.current_files { println!("   {}", f.uri); }
    }
    println!("pending: {:?}", w.pending_tasks());
    println!("running: {:?}", w.running_tasks());
    let _ = std::env::set_current_dir("/");
    let _ = std::fs::remove_dir_all(&dir);
}
