//! The operation alphabet: public manager calls on the world.

use std::str::FromStr;

use krill::api;
use krill::api::admin::UpdateChildRequest;
use krill::api::aspa::{AspaDefinition, AspaDefinitionUpdates, AspaProvidersUpdate};
use krill::api::bgpsec::{BgpSecAsnKey, BgpSecDefinition, BgpSecDefinitionUpdates};
use krill::api::roa::{RoaConfiguration, RoaConfigurationUpdates, RoaPayload};
use rpki::ca::csr::BgpsecCsr;
use rpki::repository::resources::{Asn, ResourceSet};
use serde::{Deserialize, Serialize};

use crate::clock;
use crate::world::{World, ca, child_h, parent_h, pub_h};

pub static ROUTER_CSRS: [&[u8]; 2] = [
    include_bytes!("../data/router-csr-0.der"),
    include_bytes!("../data/router-csr-1.der"),
];

pub fn router_csr(idx: usize) -> BgpsecCsr {
    BgpsecCsr::decode(ROUTER_CSRS[idx]).expect("router csr")
}

/// (asn, v4, v6) in the notation of ResourceSet::from_strs
pub type Res3 = (String, String, String);

pub fn r3(asn: &str, v4: &str, v6: &str) -> Res3 {
    (asn.to_string(), v4.to_string(), v6.to_string())
}

pub fn rset(r: &Res3) -> ResourceSet {
    ResourceSet::from_strs(&r.0, &r.1, &r.2).expect("resource set")
}

/// One element of a publication delta. Contents are small integers that
/// stand for fixed byte strings; `old: None` means a bogus hash.
#[derive(Clone, Debug, Serialize, Deserialize, PartialEq, Eq, Hash)]
pub enum PubEl {
    Publish { uri: String, content: u8 },
    Update { uri: String, content: u8, old: Option<u8> },
    Withdraw { uri: String, old: Option<u8> },
}

pub fn pub_content(c: u8) -> bytes::Bytes {
    // content 200+ is ballast (large), so that size-based delta truncation
    // does not dominate in the tiny test repositories
    let n = if c >= 200 { 60_000 } else { c as usize * 7 };
    bytes::Bytes::from(format!("content-{c}-{}", "x".repeat(n)))
}

#[derive(Clone, Debug, Serialize, Deserialize, PartialEq, Eq, Hash)]
#[serde(tag = "op")]
pub enum Op {
    /// a publication delta sent by a publisher (RFC 8181 query, unsigned path)
    PubDelta { publisher: String, elems: Vec<PubEl> },
    /// what the RrdpUpdateIfNeeded task does
    RrdpUpdate,
    /// ROA delta: payloads in krill notation "10.0.0.0/24-24 => 65000"
    Roa { ca: String, add: Vec<String>, del: Vec<String> },
    AspaSet { ca: String, customer: u32, providers: Vec<u32> },
    AspaDel { ca: String, customer: u32 },
    /// one update that removes the definition of `remove` and sets the one
    /// of `customer`
    AspaSwap { ca: String, remove: u32, customer: u32, providers: Vec<u32> },
    AspaProviders { ca: String, customer: u32, add: Vec<u32>, del: Vec<u32> },
    BgpsecAdd { ca: String, asn: u32, csr: usize },
    BgpsecDel { ca: String, asn: u32, csr: usize },
    Entitle { parent: String, child: String, res: Res3 },
    Suspend { parent: String, child: String },
    Unsuspend { parent: String, child: String },
    RemoveChild { parent: String, child: String },
    /// (re-)register child under parent and tell the child
    LinkChild { parent: String, child: String, res: Res3 },
    RemoveParent { ca: String, parent: String },
    DeleteCa { ca: String },
    AddCa { ca: String },
    /// only the creation of the CA (one krill operation; `AddCa` also gives
    /// it a publisher and a repository contact)
    InitCa { ca: String },
    RollInit { ca: String },
    RollActivate { ca: String },
    Republish { force: bool },
    Renew,
    ForceRenewRoas,
    SyncParent { ca: String, parent: String },
    SyncRepo { ca: String },
    SyncTa,
    RenewTa,
    RemovePublisher { publisher: String },
    /// (re-)create the publisher for an existing CA with its current id
    AddPublisher { ca: String },
    SessionReset,
    UpdateId { ca: String },
    /// queue the real UpdateSnapshots task (due now)
    Snapshots,
    Step,
    Pump,
    Tick { secs: i64 },
    Restart,
    /// (C15, executed by the model) the TA proxy opens a signer request
    TaMake,
    /// (C15) the signer processes the pooled request `slot` (0 = latest),
    /// altered as `tamper` says (0 = genuine)
    TaSign { slot: usize, tamper: u8 },
    /// (C15) the proxy is given the pooled response `slot`
    TaDeliver { slot: usize, tamper: u8 },
    /// (C15) the signer is initialised again with the same TA key and the
    /// proxy is told about it
    TaReinit,
    /// (C15) a child of the TA played by the harness asks for a certificate
    /// for its key number `key` (local request path, hook H7)
    TaChildIssue { key: u8 },
}

impl std::fmt::Display for Op {
    fn fmt(&self, f: &mut std::fmt::Formatter) -> std::fmt::Result {
        write!(f, "{}", serde_json::to_string(self).unwrap())
    }
}

impl Op {
    /// Short form used in finding signatures, e.g. `RemoveChild(parent,ca)`.
    pub fn compact(&self) -> String {
        let v = serde_json::to_value(self).unwrap();
        let m = v.as_object().unwrap();
        let name = m["op"].as_str().unwrap().to_string();
        let mut args = Vec::new();
        for k in ["parent", "ca", "child", "publisher"] {
            if let Some(x) = m.get(k).and_then(|x| x.as_str()) {
                args.push(x.to_string());
            }
        }
        // parent before child, ca alone
        format!("{name}({})", args.join(","))
    }
}

pub fn compact_path(ops: &[Op]) -> String {
    ops.iter().map(|o| o.compact()).collect::<Vec<_>>().join(";")
}

#[derive(Clone, Debug, Serialize, Deserialize)]
pub struct OpOutcome {
    pub ok: bool,
    pub err: Option<String>,
    /// tasks processed by Step/Pump, or fatal reason
    pub tasks: Vec<String>,
    pub fatal: Option<String>,
}

impl OpOutcome {
    pub fn from_res<T>(r: Result<T, krill::commons::error::Error>) -> Self {
        match r {
            Ok(_) => OpOutcome { ok: true, err: None, tasks: vec![], fatal: None },
            Err(e) => OpOutcome {
                ok: false,
                err: Some(e.to_string()),
                tasks: vec![],
                fatal: None,
            },
        }
    }
}

pub fn roa_payload(s: &str) -> RoaPayload {
    RoaPayload::from_str(s).unwrap_or_else(|e| panic!("bad roa payload {s}: {e}"))
}

pub fn asn(a: u32) -> Asn {
    Asn::from_u32(a)
}

impl World {
    pub fn apply(&mut self, op: &Op) -> OpOutcome {
        match op {
            Op::PubDelta { publisher, elems } => {
                use rpki::ca::publication::{Base64, Publish, PublishDelta, Update, Withdraw};
                let mut delta = PublishDelta::empty();
                let mut bad_uri = None;
                for el in elems {
                    let (uri_s, _) = match el {
                        PubEl::Publish { uri, .. } => (uri, 0),
                        PubEl::Update { uri, .. } => (uri, 0),
                        PubEl::Withdraw { uri, .. } => (uri, 0),
                    };
                    let Ok(uri) = rpki::uri::Rsync::from_str(uri_s) else {
                        bad_uri = Some(uri_s.clone());
                        break;
                    };
                    let hash_of = |old: &Option<u8>| match old {
                        Some(c) => Base64::from_content(&pub_content(*c)).to_hash(),
                        None => Base64::from_content(b"bogus").to_hash(),
                    };
                    match el {
                        PubEl::Publish { content, .. } => delta.add_publish(Publish::new(
                            None, uri, Base64::from_content(&pub_content(*content)),
                        )),
                        PubEl::Update { content, old, .. } => delta.add_update(Update::new(
                            None, uri, Base64::from_content(&pub_content(*content)), hash_of(old),
                        )),
                        PubEl::Withdraw { old, .. } => {
                            delta.add_withdraw(Withdraw::new(None, uri, hash_of(old)))
                        }
                    }
                }
                if let Some(u) = bad_uri {
                    return OpOutcome { ok: false, err: Some(format!("unparseable uri {u}")), tasks: vec![], fatal: None };
                }
                let r = self.krill.repo_manager().rfc8181_message(
                    &pub_h(publisher),
                    rpki::ca::publication::Query::Delta(delta),
                    &self.krill,
                );
                match r {
                    Ok(msg) => match msg.as_reply() {
                        Ok(rpki::ca::publication::Reply::Success) => OpOutcome { ok: true, err: None, tasks: vec![], fatal: None },
                        Ok(other) => OpOutcome { ok: false, err: Some(format!("reply: {other:?}")), tasks: vec![], fatal: None },
                        Err(e) => OpOutcome { ok: false, err: Some(e.to_string()), tasks: vec![], fatal: None },
                    },
                    Err(e) => OpOutcome { ok: false, err: Some(e.to_string()), tasks: vec![], fatal: None },
                }
            }
            Op::RrdpUpdate => OpOutcome::from_res(
                self.krill.repo_manager().update_rrdp_if_needed().map(|_| ()),
            ),
            Op::Roa { ca: c, add, del } => {
                let updates = RoaConfigurationUpdates {
                    added: add
                        .iter()
                        .map(|s| RoaConfiguration::from(roa_payload(s)))
                        .collect(),
                    removed: del.iter().map(|s| roa_payload(s)).collect(),
                };
                OpOutcome::from_res(self.krill.ca_manager().ca_routes_update(
                    ca(c), updates, &self.actor, &self.krill,
                ))
            }
            Op::AspaSet { ca: c, customer, providers } => {
                let updates = AspaDefinitionUpdates {
                    add_or_replace: vec![AspaDefinition {
                        customer: asn(*customer),
                        providers: providers.iter().map(|p| asn(*p)).collect(),
                    }],
                    remove: vec![],
                };
                OpOutcome::from_res(
                    self.krill.ca_manager().ca_aspas_definitions_update(
                        ca(c), updates, &self.actor, &self.krill,
                    ),
                )
            }
            Op::AspaSwap { ca: c, remove, customer, providers } => {
                let updates = AspaDefinitionUpdates {
                    add_or_replace: vec![AspaDefinition {
                        customer: asn(*customer),
                        providers: providers.iter().map(|p| asn(*p)).collect(),
                    }],
                    remove: vec![asn(*remove)],
                };
                OpOutcome::from_res(
                    self.krill.ca_manager().ca_aspas_definitions_update(
                        ca(c), updates, &self.actor, &self.krill,
                    ),
                )
            }
            Op::AspaDel { ca: c, customer } => {
                let updates = AspaDefinitionUpdates {
                    add_or_replace: vec![],
                    remove: vec![asn(*customer)],
                };
                OpOutcome::from_res(
                    self.krill.ca_manager().ca_aspas_definitions_update(
                        ca(c), updates, &self.actor, &self.krill,
                    ),
                )
            }
            Op::AspaProviders { ca: c, customer, add, del } => {
                let update = AspaProvidersUpdate {
                    added: add.iter().map(|p| asn(*p)).collect(),
                    removed: del.iter().map(|p| asn(*p)).collect(),
                };
                OpOutcome::from_res(
                    self.krill.ca_manager().ca_aspas_update_aspa_providers(
                        ca(c), asn(*customer), update, &self.actor, &self.krill,
                    ),
                )
            }
            Op::BgpsecAdd { ca: c, asn: a, csr } => {
                let updates = BgpSecDefinitionUpdates {
                    add: vec![BgpSecDefinition { asn: asn(*a), csr: router_csr(*csr) }],
                    remove: vec![],
                };
                OpOutcome::from_res(
                    self.krill.ca_manager().ca_bgpsec_definitions_update(
                        ca(c), updates, &self.actor, &self.krill,
                    ),
                )
            }
            Op::BgpsecDel { ca: c, asn: a, csr } => {
                let key = router_csr(*csr).public_key().key_identifier();
                let updates = BgpSecDefinitionUpdates {
                    add: vec![],
                    remove: vec![BgpSecAsnKey { asn: asn(*a), key }],
                };
                OpOutcome::from_res(
                    self.krill.ca_manager().ca_bgpsec_definitions_update(
                        ca(c), updates, &self.actor, &self.krill,
                    ),
                )
            }
            Op::Entitle { parent, child, res } => {
                if parent == "ta" {
                    return OpOutcome {
                        ok: false,
                        err: Some("TA children cannot be updated".into()),
                        tasks: vec![],
                        fatal: None,
                    };
                }
                OpOutcome::from_res(self.update_child(
                    parent, child, UpdateChildRequest::resources(rset(res)),
                ))
            }
            Op::Suspend { parent, child } => OpOutcome::from_res(
                self.update_child(parent, child, UpdateChildRequest::suspend()),
            ),
            Op::Unsuspend { parent, child } => OpOutcome::from_res(
                self.update_child(parent, child, UpdateChildRequest::unsuspend()),
            ),
            Op::RemoveChild { parent, child } => OpOutcome::from_res(
                self.krill.ca_manager().ca_child_remove(
                    &ca(parent), child_h(child), &self.actor, &self.krill,
                ),
            ),
            Op::LinkChild { parent, child, res } => {
                OpOutcome::from_res(self.add_child_link(parent, child, rset(res)))
            }
            Op::RemoveParent { ca: c, parent } => OpOutcome::from_res(
                self.krill.ca_manager().ca_parent_remove(
                    ca(c), parent_h(parent), &self.actor, &self.slow,
                ),
            ),
            Op::DeleteCa { ca: c } => OpOutcome::from_res(
                self.krill.ca_manager().delete_ca(&ca(c), &self.actor, &self.slow),
            ),
            Op::AddCa { ca: c } => OpOutcome::from_res(self.add_ca(c)),
            Op::InitCa { ca: c } => OpOutcome::from_res(self.krill.ca_manager().init_ca(ca(c), &self.krill)),
            Op::RollInit { ca: c } => OpOutcome::from_res(
                self.krill.ca_manager().ca_keyroll_init(
                    ca(c), chrono::Duration::seconds(0), &self.actor, &self.krill,
                ),
            ),
            Op::RollActivate { ca: c } => OpOutcome::from_res(
                self.krill.ca_manager().ca_keyroll_activate(
                    ca(c), chrono::Duration::seconds(0), &self.actor, &self.krill,
                ),
            ),
            Op::Republish { force } => {
                // what KrillManager::republish_all does
                let r = self
                    .krill
                    .ca_manager()
                    .republish_all(*force, &self.krill)
                    .and_then(|cas| {
                        for c in cas {
                            self.krill
                                .ca_manager()
                                .cas_schedule_repo_sync(c, &self.krill)?;
                        }
                        Ok(())
                    });
                OpOutcome::from_res(r)
            }
            Op::Renew => OpOutcome::from_res(
                self.krill
                    .ca_manager()
                    .renew_objects_all(&self.actor, &self.krill),
            ),
            Op::ForceRenewRoas => OpOutcome::from_res(
                self.krill
                    .ca_manager()
                    .force_renew_roas_all(&self.actor, &self.krill),
            ),
            Op::SyncParent { ca: c, parent } => {
                OpOutcome::from_res(self.sync_parent(c, parent))
            }
            Op::SyncRepo { ca: c } => OpOutcome::from_res(
                self.krill.ca_manager().cas_repo_sync_single(&ca(c), 0, &self.slow),
            ),
            Op::SyncTa => OpOutcome::from_res(self.sync_ta()),
            Op::RenewTa => OpOutcome::from_res(
                self.krill.ca_manager().ta_renew_testbed_ta(&self.krill),
            ),
            Op::RemovePublisher { publisher } => OpOutcome::from_res(
                self.krill.repo_manager().remove_publisher(
                    pub_h(publisher), &self.actor, &self.krill,
                ),
            ),
            Op::AddPublisher { ca: c } => {
                let r = (|| {
                    let handle = ca(c);
                    let cert_auth = self.krill.ca_manager().get_ca(&handle)?;
                    let req = rpki::ca::idexchange::PublisherRequest::new(
                        cert_auth.id_cert().base64.clone(),
                        handle.convert(),
                        None,
                    );
                    self.krill.repo_manager().create_publisher(req, &self.actor)
                })();
                OpOutcome::from_res(r)
            }
            Op::SessionReset => {
                OpOutcome::from_res(self.krill.repo_manager().rrdp_session_reset())
            }
            Op::UpdateId { ca: c } => OpOutcome::from_res(
                self.krill.ca_manager().ca_update_id(ca(c), &self.actor, &self.krill),
            ),
            Op::Snapshots => OpOutcome::from_res(self.krill.tasks().schedule(
                krill::server::mq::Task::UpdateSnapshots,
                krill::server::mq::now(),
            )),
            Op::Step => {
                use krill::server::scheduler::VerifStepOutcome as O;
                match self.step() {
                    O::Idle => OpOutcome { ok: true, err: None, tasks: vec![], fatal: None },
                    O::Processed { task_key, result, .. } => OpOutcome {
                        ok: true,
                        err: None,
                        tasks: vec![format!("{task_key}:{result}")],
                        fatal: None,
                    },
                    O::Fatal(f) => OpOutcome {
                        ok: false, err: None, tasks: vec![], fatal: Some(f),
                    },
                }
            }
            Op::Pump => match self.pump() {
                Ok(tasks) => OpOutcome { ok: true, err: None, tasks, fatal: None },
                Err(f) => OpOutcome { ok: false, err: None, tasks: vec![], fatal: Some(f) },
            },
            Op::Tick { secs } => {
                clock::advance(*secs);
                OpOutcome { ok: true, err: None, tasks: vec![], fatal: None }
            }
            Op::Restart => OpOutcome::from_res(self.restart()),
            Op::TaMake | Op::TaSign { .. } | Op::TaDeliver { .. } | Op::TaReinit | Op::TaChildIssue { .. } => OpOutcome {
                ok: false,
                err: Some("operation is executed by the C15 model".into()),
                tasks: vec![],
                fatal: None,
            },
        }
    }

    /// op followed by pump; fatal from the pump is carried in the outcome.
    pub fn apply_pumped(&mut self, op: &Op) -> OpOutcome {
        let mut out = self.apply(op);
        if matches!(op, Op::Step | Op::Pump) {
            return out;
        }
        match self.pump() {
            Ok(tasks) => out.tasks = tasks,
            Err(f) => out.fatal = Some(f),
        }
        out
    }
}

#[allow(dead_code)]
fn _unused(_: api::admin::Token) {}
