//! Evidence files, VIOLATION / KNOWN-FINDING lines, known-findings file.

use std::path::PathBuf;
use std::time::Instant;

use serde_json::{Value, json};

pub const VERIF_DIR: &str = "/verif";

#[derive(Clone, Debug)]
pub struct Known {
    pub property: String,
    pub sig: regex::Regex,
    pub what: String,
}

/// Parses /verif/known_findings.txt. Lines:
///   known: property=C08 sig=<regex over "kind|detail"> :: <what fails>
///   fixed: property=C03 <commit> <what failed>        (suppresses nothing)
pub fn load_known() -> Vec<Known> {
    let mut res = Vec::new();
    let path = PathBuf::from(VERIF_DIR).join("known_findings.txt");
    let Ok(text) = std::fs::read_to_string(path) else { return res };
    for line in text.lines() {
        let line = line.trim();
        let Some(rest) = line.strip_prefix("known:") else { continue };
        let Some((head, what)) = rest.split_once("::") else { continue };
        let mut property = String::new();
        let mut sig = String::new();
        let head = head.trim();
        if let Some(p) = head.strip_prefix("property=") {
            if let Some((prop, tail)) = p.split_once(' ') {
                property = prop.to_string();
                if let Some(s) = tail.trim().strip_prefix("sig=") {
                    sig = s.trim().to_string();
                }
            }
        }
        if property.is_empty() || sig.is_empty() {
            continue;
        }
        if let Ok(re) = regex::Regex::new(&sig) {
            res.push(Known { property, sig: re, what: what.trim().to_string() });
        }
    }
    res
}

pub struct Tier {
    pub name: &'static str,
    pub thorough: bool,
}

pub fn tier_from_args(args: &[String]) -> Tier {
    let mut thorough = std::env::var("VERIF_TIER").map(|t| t == "thorough").unwrap_or(false);
    let mut i = 0;
    while i < args.len() {
        if args[i] == "--tier" && i + 1 < args.len() {
            thorough = args[i + 1] == "thorough";
        }
        i += 1;
    }
    Tier { name: if thorough { "thorough" } else { "quick" }, thorough }
}

pub fn seed() -> i64 {
    std::env::var("VERIF_SEED").ok().and_then(|s| s.parse().ok()).unwrap_or(0)
}

/// Where evidence and replays are written: /verif, or the directory named by
/// VERIF_OUT_DIR (used when trying seeded changes, so that the registered
/// evidence is not overwritten by runs on a modified tree).
pub fn out_root() -> PathBuf {
    match std::env::var("VERIF_OUT_DIR") {
        Ok(d) if !d.is_empty() => PathBuf::from(d),
        _ => PathBuf::from(VERIF_DIR),
    }
}

pub fn arg_value(args: &[String], name: &str) -> Option<String> {
    args.iter().position(|a| a == name).and_then(|i| args.get(i + 1)).cloned()
}

/// A finding reported by a check: signature (for known-finding matching),
/// human text, and the replay artefact to write.
#[derive(Clone, Debug)]
pub struct Finding {
    pub signature: String,
    pub text: String,
    pub replay: Value,
}

pub struct Outcome {
    pub property: String,
    pub tier: &'static str,
    pub level: &'static str,
    pub coverage: Value,
    pub assumptions: Vec<String>,
    pub findings: Vec<Finding>,
    pub machinery_errors: Vec<String>,
    pub started: Instant,
}

impl Outcome {
    pub fn new(property: &str, tier: &Tier, level: &'static str) -> Self {
        Outcome {
            property: property.to_string(),
            tier: tier.name,
            level,
            coverage: json!({}),
            assumptions: Vec::new(),
            findings: Vec::new(),
            machinery_errors: Vec::new(),
            started: Instant::now(),
        }
    }

    /// Writes the evidence file, prints verdict lines, returns the exit code.
    pub fn finish(self) -> i32 {
        let known = load_known();
        let mut unknown: Vec<&Finding> = Vec::new();
        let mut known_hit: Vec<(String, usize)> = Vec::new();
        for f in &self.findings {
            let k = known
                .iter()
                .find(|k| k.property == self.property && k.sig.is_match(&f.signature));
            match k {
                Some(k) => {
                    if let Some(e) = known_hit.iter_mut().find(|e| e.0 == k.what) {
                        e.1 += 1;
                    } else {
                        known_hit.push((k.what.clone(), 1));
                    }
                }
                None => unknown.push(f),
            }
        }
        // replay files for unknown findings (deduplicated by signature)
        let replay_dir = out_root().join("replays");
        let _ = std::fs::create_dir_all(&replay_dir);
        let mut seen_sigs: Vec<String> = Vec::new();
        let mut lines = Vec::new();
        for f in &unknown {
            if seen_sigs.contains(&f.signature) {
                continue;
            }
            seen_sigs.push(f.signature.clone());
            let name = format!(
                "{}-{:016x}.json",
                self.property,
                crate::fingerprint::h64(f.signature.as_bytes(), 7)
            );
            let path = replay_dir.join(name);
            let mut v = f.replay.clone();
            if let Value::Object(m) = &mut v {
                m.insert("signature".into(), json!(f.signature));
                m.insert("text".into(), json!(f.text));
            }
            let _ = std::fs::write(&path, serde_json::to_vec_pretty(&v).unwrap());
            lines.push(format!(
                "VIOLATION property={} replay={}",
                self.property,
                path.display()
            ));
            eprintln!("  -> {}", f.text);
        }
        let mut cov = self.coverage.clone();
        if let Value::Object(m) = &mut cov {
            m.insert(
                "known_findings_reproduced".into(),
                json!(known_hit
                    .iter()
                    .map(|(w, n)| json!({"what": w, "occurrences": n}))
                    .collect::<Vec<_>>()),
            );
            m.insert("machinery_errors".into(), json!(self.machinery_errors));
        }
        let evidence = json!({
            "property_id": self.property,
            "tier": self.tier,
            "seed": seed(),
            "level": self.level,
            "coverage": cov,
            "assumptions": self.assumptions,
            "wall_s": self.started.elapsed().as_secs_f64(),
            "violations": seen_sigs.len(),
        });
        let ev_dir = out_root().join("evidence");
        let _ = std::fs::create_dir_all(&ev_dir);
        let _ = std::fs::write(
            ev_dir.join(format!("{}.json", self.property)),
            serde_json::to_vec_pretty(&evidence).unwrap(),
        );
        for (what, n) in &known_hit {
            println!(
                "KNOWN-FINDING: property={} {} (x{})",
                self.property, what, n
            );
        }
        for l in &lines {
            println!("{l}");
        }
        if !self.machinery_errors.is_empty() {
            for e in &self.machinery_errors {
                eprintln!("MACHINERY: {e}");
            }
            // a machinery fault is never a verdict
            if lines.is_empty() {
                return 2;
            }
        }
        if lines.is_empty() {
            println!(
                "OK property={} tier={} wall={:.1}s",
                self.property,
                self.tier,
                self.started.elapsed().as_secs_f64()
            );
            0
        } else {
            1
        }
    }
}
