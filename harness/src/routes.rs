//! The daemon's HTTP route table (as read from src/daemon/http/dispatch/*),
//! shared by C13 (permissions), C16 (hostile input) and C20 (credentials).

/// A route template. Path parameters: {ca} {child} {parent} {customer}
/// {publisher} {n}.
#[derive(Clone, Copy, Debug)]
pub struct Route {
    pub method: &'static str,
    pub path: &'static str,
    /// permission the operation requires (None: served without credentials)
    pub perm: Option<&'static str>,
    /// whether the permission is evaluated for the CA in the path
    pub ca_scoped: bool,
    /// name of the body fixture (POST routes that read a body)
    pub body: Option<&'static str>,
    /// changes state when it succeeds
    pub mutating: bool,
}

const fn r(
    method: &'static str,
    path: &'static str,
    perm: Option<&'static str>,
    ca_scoped: bool,
    body: Option<&'static str>,
    mutating: bool,
) -> Route {
    Route { method, path, perm, ca_scoped, body, mutating }
}

pub const ROUTES: &[Route] = &[
    // --- no credentials needed
    r("GET", "/", None, false, None, false),
    r("GET", "/health", None, false, None, false),
    r("GET", "/metrics", None, false, None, false),
    r("GET", "/stats/info", None, false, None, false),
    r("GET", "/stats/repo", None, false, None, false),
    r("GET", "/stats/cas", None, false, None, false),
    r("GET", "/ta/ta.tal", None, false, None, false),
    r("GET", "/ta/ta.cer", None, false, None, false),
    r("GET", "/testbed.tal", None, false, None, false),
    r("GET", "/rrdp/notification.xml", None, false, None, false),
    r("GET", "/testbed/enabled", None, false, None, false),
    r("POST", "/testbed/children", None, false, Some("testbed_child"), true),
    r("GET", "/testbed/children/{child}/parent_response.xml", None, false, None, false),
    r("DELETE", "/testbed/children/{child}", None, false, None, true),
    r("POST", "/testbed/publishers", None, false, Some("publisher_request"), true),
    r("GET", "/testbed/publishers/{publisher}/response.xml", None, false, None, false),
    r("DELETE", "/testbed/publishers/{publisher}", None, false, None, true),
    r("POST", "/rfc6492/{ca}", None, false, Some("raw"), true),
    r("POST", "/rfc8181/{publisher}", None, false, Some("raw"), true),
    r("GET", "/auth/login", None, false, None, false),
    // --- versioned API
    r("GET", "/api/v1/authorized", Some("login"), false, None, false),
    r("GET", "/api/v1/cas", Some("login"), false, None, false),
    r("POST", "/api/v1/cas", Some("ca-create"), false, Some("ca_init"), true),
    r("GET", "/api/v1/cas/{ca}", Some("ca-read"), true, None, false),
    r("DELETE", "/api/v1/cas/{ca}", Some("ca-delete"), true, None, true),
    r("GET", "/api/v1/cas/{ca}/aspas", Some("aspas-read"), true, None, false),
    r("POST", "/api/v1/cas/{ca}/aspas", Some("aspas-update"), true, Some("aspa_updates"), true),
    r("POST", "/api/v1/cas/{ca}/aspas/as/{customer}", Some("aspas-update"), true, Some("aspa_providers"), true),
    r("DELETE", "/api/v1/cas/{ca}/aspas/as/{customer}", Some("aspas-update"), true, None, true),
    r("GET", "/api/v1/cas/{ca}/bgpsec", Some("bgpsec-read"), true, None, false),
    r("POST", "/api/v1/cas/{ca}/bgpsec", Some("bgpsec-update"), true, Some("bgpsec_updates"), true),
    r("POST", "/api/v1/cas/{ca}/children", Some("ca-update"), true, Some("child_add"), true),
    r("GET", "/api/v1/cas/{ca}/children/{child}", Some("ca-read"), true, None, false),
    r("POST", "/api/v1/cas/{ca}/children/{child}", Some("ca-update"), true, Some("child_update"), true),
    r("DELETE", "/api/v1/cas/{ca}/children/{child}", Some("ca-update"), true, None, true),
    r("GET", "/api/v1/cas/{ca}/children/{child}/contact", Some("ca-read"), true, None, false),
    r("GET", "/api/v1/cas/{ca}/children/{child}/parent_response.json", Some("ca-read"), true, None, false),
    r("GET", "/api/v1/cas/{ca}/children/{child}/parent_response.xml", Some("ca-read"), true, None, false),
    r("GET", "/api/v1/cas/{ca}/children/{child}/export", Some("ca-read"), true, None, false),
    r("POST", "/api/v1/cas/{ca}/children/{child}/import", Some("ca-admin"), true, Some("child_import"), true),
    r("GET", "/api/v1/cas/{ca}/history/commands", Some("ca-read"), true, None, false),
    r("GET", "/api/v1/cas/{ca}/history/commands/{n}/{n}", Some("ca-read"), true, None, false),
    r("GET", "/api/v1/cas/{ca}/history/commands/{n}/{n}/{n}", Some("ca-read"), true, None, false),
    r("GET", "/api/v1/cas/{ca}/history/commands/{n}/{n}/{n}/{n}", Some("ca-read"), true, None, false),
    r("GET", "/api/v1/cas/{ca}/history/details/{n}", Some("ca-read"), true, None, false),
    r("POST", "/api/v1/cas/{ca}/id", Some("ca-update"), true, None, true),
    r("GET", "/api/v1/cas/{ca}/id/child_request.json", Some("ca-read"), true, None, false),
    r("GET", "/api/v1/cas/{ca}/id/child_request.xml", Some("ca-read"), true, None, false),
    r("GET", "/api/v1/cas/{ca}/id/publisher_request.json", Some("ca-read"), true, None, false),
    r("GET", "/api/v1/cas/{ca}/id/publisher_request.xml", Some("ca-read"), true, None, false),
    r("GET", "/api/v1/cas/{ca}/issues", Some("ca-read"), true, None, false),
    r("POST", "/api/v1/cas/{ca}/keys/roll_init", Some("ca-update"), true, None, true),
    r("POST", "/api/v1/cas/{ca}/keys/roll_activate", Some("ca-update"), true, None, true),
    r("GET", "/api/v1/cas/{ca}/parents", Some("ca-read"), true, None, false),
    r("POST", "/api/v1/cas/{ca}/parents", Some("ca-update"), true, Some("parent_add"), true),
    r("GET", "/api/v1/cas/{ca}/parents/{parent}", Some("ca-read"), true, None, false),
    r("POST", "/api/v1/cas/{ca}/parents/{parent}", Some("ca-update"), true, Some("parent_add"), true),
    r("DELETE", "/api/v1/cas/{ca}/parents/{parent}", Some("ca-update"), true, None, true),
    r("GET", "/api/v1/cas/{ca}/repo", Some("ca-read"), true, None, false),
    r("POST", "/api/v1/cas/{ca}/repo", Some("ca-update"), true, Some("repo_contact"), true),
    r("GET", "/api/v1/cas/{ca}/repo/status", Some("ca-read"), true, None, false),
    r("GET", "/api/v1/cas/{ca}/routes", Some("routes-read"), true, None, false),
    r("POST", "/api/v1/cas/{ca}/routes", Some("routes-update"), true, Some("roa_updates"), true),
    r("POST", "/api/v1/cas/{ca}/routes/try", Some("routes-update"), true, Some("roa_updates"), true),
    r("GET", "/api/v1/cas/{ca}/routes/analysis/full", Some("routes-analysis"), true, None, false),
    r("POST", "/api/v1/cas/{ca}/routes/analysis/dryrun", Some("routes-analysis"), true, Some("roa_updates"), false),
    r("GET", "/api/v1/cas/{ca}/routes/analysis/suggest", Some("routes-analysis"), true, None, false),
    r("POST", "/api/v1/cas/{ca}/routes/analysis/suggest", Some("routes-analysis"), true, Some("resource_set"), false),
    r("GET", "/api/v1/cas/{ca}/stats/children/connections", Some("ca-read"), true, None, false),
    r("POST", "/api/v1/cas/{ca}/sync/parents", Some("ca-update"), true, None, true),
    r("POST", "/api/v1/cas/{ca}/sync/repo", Some("ca-update"), true, None, true),
    // bulk
    r("POST", "/api/v1/bulk/cas/import", Some("ca-admin"), false, Some("bulk_import"), true),
    r("GET", "/api/v1/bulk/cas/issues", Some("login"), false, None, false),
    r("POST", "/api/v1/bulk/cas/sync/parent", Some("ca-admin"), false, None, true),
    r("POST", "/api/v1/bulk/cas/sync/repo", Some("ca-admin"), false, None, true),
    r("POST", "/api/v1/bulk/cas/publish", Some("ca-admin"), false, None, true),
    r("POST", "/api/v1/bulk/cas/force_publish", Some("ca-admin"), false, None, true),
    r("POST", "/api/v1/bulk/cas/suspend", Some("ca-admin"), false, None, true),
    // publication server
    r("POST", "/api/v1/pubd/delete", Some("pub-admin"), false, Some("delete_criteria"), true),
    r("POST", "/api/v1/pubd/init", Some("pub-admin"), false, Some("pubd_init"), true),
    r("DELETE", "/api/v1/pubd/init", Some("pub-admin"), false, None, true),
    r("GET", "/api/v1/pubd/publishers", Some("pub-list"), false, None, false),
    r("POST", "/api/v1/pubd/publishers", Some("pub-create"), false, Some("publisher_request"), true),
    r("GET", "/api/v1/pubd/publishers/{publisher}", Some("pub-read"), false, None, false),
    r("DELETE", "/api/v1/pubd/publishers/{publisher}", Some("pub-delete"), false, None, true),
    r("GET", "/api/v1/pubd/publishers/{publisher}/response.json", Some("pub-read"), false, None, false),
    r("GET", "/api/v1/pubd/publishers/{publisher}/response.xml", Some("pub-read"), false, None, false),
    r("POST", "/api/v1/pubd/session_reset", Some("pub-admin"), false, None, true),
    r("GET", "/api/v1/pubd/stale/{n}", Some("pub-list"), false, None, false),
    // trust anchor proxy
    r("GET", "/api/v1/ta/proxy/children", Some("ca-admin"), false, None, false),
    r("POST", "/api/v1/ta/proxy/children", Some("ca-admin"), false, Some("child_add"), true),
    r("GET", "/api/v1/ta/proxy/children/{child}/parent_response.json", Some("ca-admin"), false, None, false),
    r("GET", "/api/v1/ta/proxy/children/{child}/parent_response.xml", Some("ca-admin"), false, None, false),
    r("GET", "/api/v1/ta/proxy/id", Some("ca-admin"), false, None, false),
    r("POST", "/api/v1/ta/proxy/init", Some("ca-admin"), false, None, true),
    r("GET", "/api/v1/ta/proxy/repo", Some("ca-admin"), false, None, false),
    r("POST", "/api/v1/ta/proxy/repo", Some("ca-admin"), false, Some("repo_contact"), true),
    r("GET", "/api/v1/ta/proxy/repo/request.json", Some("ca-admin"), false, None, false),
    r("GET", "/api/v1/ta/proxy/repo/request.xml", Some("ca-admin"), false, None, false),
    r("POST", "/api/v1/ta/proxy/signer/add", Some("ca-admin"), false, Some("signer_info"), true),
    r("GET", "/api/v1/ta/proxy/signer/request", Some("ca-admin"), false, None, false),
    r("POST", "/api/v1/ta/proxy/signer/request", Some("ca-admin"), false, None, true),
    r("POST", "/api/v1/ta/proxy/signer/response", Some("ca-admin"), false, Some("signer_response"), true),
    r("POST", "/api/v1/ta/proxy/signer/update", Some("ca-admin"), false, Some("signer_info"), true),
];

/// Fills the parameters of a route template.
pub fn fill(path: &str, ca: &str, child: &str, parent: &str, customer: &str, publisher: &str, n: &str) -> String {
    path.replace("{ca}", ca)
        .replace("{child}", child)
        .replace("{parent}", parent)
        .replace("{customer}", customer)
        .replace("{publisher}", publisher)
        .replace("{n}", n)
}

/// All permissions a caller needs for a route, with whether each is evaluated
/// for the CA in the path: the login gate of the versioned API, the gate of
/// the sub-tree (ca-read for /cas/{ca}/..., pub-admin for /pubd/...), and the
/// operation's own permission.
pub fn required(route: &Route) -> Vec<(&'static str, bool)> {
    let mut v: Vec<(&'static str, bool)> = Vec::new();
    let Some(perm) = route.perm else { return v };
    if route.path.starts_with("/api/v1/") && route.path != "/api/v1/authorized" {
        v.push(("login", false));
    }
    if route.path.starts_with("/api/v1/cas/{ca}") {
        v.push(("ca-read", true));
    }
    if route.path.starts_with("/api/v1/pubd") {
        v.push(("pub-admin", false));
    }
    if !v.iter().any(|(p, _)| *p == perm) {
        v.push((perm, route.ca_scoped));
    }
    v
}

pub const ALL_PERMISSIONS: &[&str] = &[
    "login", "pub-admin", "pub-list", "pub-read", "pub-create", "pub-delete", "ca-list", "ca-read", "ca-create", "ca-update", "ca-admin",
    "ca-delete", "routes-read", "routes-update", "routes-analysis", "aspas-read", "aspas-update", "bgpsec-read", "bgpsec-update", "rta-list",
    "rta-read", "rta-update",
];
