//! An independent relying-party walk over the repository content.
//!
//! Uses the *validation* side of the rpki crate (what Routinator uses) plus
//! hand-written structural checks (hashes, listed/unlisted files, CRL
//! membership, containment).

use std::collections::{BTreeMap, BTreeSet};
use std::sync::Arc;

use bytes::Bytes;
use rpki::repository::aspa::Aspa;
use rpki::repository::cert::{Cert, ResourceCert};
use rpki::repository::crl::Crl;
use rpki::repository::manifest::Manifest;
use rpki::repository::resources::ResourceSet;
use rpki::repository::roa::Roa;
use rpki::repository::tal::TalInfo;
use rpki::repository::x509::Time;
use rpki::uri;

use crate::world::World;

/// uri -> content
pub type RepoView = BTreeMap<String, Bytes>;

#[derive(Clone, Debug, PartialEq, Eq, PartialOrd, Ord, serde::Serialize)]
pub struct Vrp {
    pub prefix: String,
    pub max_len: u8,
    pub asn: u32,
}

#[derive(Clone, Debug, serde::Serialize)]
pub struct ObjInfo {
    pub uri: String,
    pub kind: &'static str,
    /// SKI of the issuing CA key
    pub issuer: String,
    pub serial: String,
    #[serde(skip)]
    pub serial_nr: Option<rpki::repository::x509::Serial>,
    pub not_after: i64,
}

#[derive(Clone, Debug, serde::Serialize)]
pub struct CaPoint {
    pub cert_uri: String,
    pub ski: String,
    pub repo_dir: String,
    pub mft_uri: String,
    pub resources: String,
    #[serde(skip)]
    pub res: ResourceSet,
    pub mft_number: String,
    pub crl_number: String,
    pub mft_this_update: i64,
    pub mft_next_update: i64,
    pub crl_next_update: i64,
    /// the CRL itself (to ask for membership)
    #[serde(skip)]
    pub crl: Option<Crl>,
    /// number of entries on the CRL
    pub crl_len: usize,
    /// file names listed on the manifest (other than the crl)
    pub products: Vec<String>,
    pub depth: usize,
}

#[derive(Clone, Debug, Default, serde::Serialize)]
pub struct RpResult {
    pub rejections: Vec<(String, String)>,
    pub accepted: Vec<ObjInfo>,
    pub cas: Vec<CaPoint>,
    pub vrps: BTreeSet<Vrp>,
    pub aspas: BTreeSet<(u32, Vec<u32>)>,
    pub router_keys: BTreeSet<(u32, String)>,
    /// files never reached by the walk
    pub unreferenced: Vec<String>,
}

impl RpResult {
    pub fn clean(&self) -> bool {
        self.rejections.is_empty() && self.unreferenced.is_empty()
    }

    pub fn problems(&self) -> Vec<String> {
        let mut res: Vec<String> = self
            .rejections
            .iter()
            .map(|(u, r)| format!("rejected {u}: {r}"))
            .collect();
        for u in &self.unreferenced {
            res.push(format!("present but not listed on any valid manifest: {u}"));
        }
        res
    }
}

/// The repository content as the publication server reports it for all
/// publishers (current + staged, i.e. what list replies say).
pub fn view_from_lists(w: &World) -> Result<RepoView, String> {
    let mut view = RepoView::new();
    let pubs = w.krill.repo_manager().publishers().map_err(|e| e.to_string())?;
    for p in pubs {
        let d = w
            .krill
            .repo_manager()
            .get_publisher_details(p.clone())
            .map_err(|e| format!("publisher {p}: {e}"))?;
        for f in d.current_files {
            view.insert(f.uri.to_string(), f.base64.to_bytes());
        }
    }
    Ok(view)
}

/// The content of the RRDP snapshot that `notification.xml` on disk names.
pub fn view_from_rrdp(w: &World) -> Result<(RepoView, rpki::rrdp::NotificationFile), String> {
    let repo_dir = w.config.repo_dir().clone();
    let rrdp_dir = repo_dir.join("rrdp");
    let notif_bytes = std::fs::read(rrdp_dir.join("notification.xml"))
        .map_err(|e| format!("cannot read notification.xml: {e}"))?;
    let notif = rpki::rrdp::NotificationFile::parse(notif_bytes.as_slice())
        .map_err(|e| format!("cannot parse notification.xml: {e}"))?;
    let base = w
        .config
        .testbed()
        .unwrap()
        .publication_server_uris()
        .rrdp_base_uri
        .to_string();
    let snap_uri = notif.snapshot().uri().to_string();
    let rel = snap_uri
        .strip_prefix(&base)
        .ok_or_else(|| format!("snapshot uri {snap_uri} outside base {base}"))?;
    let snap_bytes = std::fs::read(rrdp_dir.join(rel))
        .map_err(|e| format!("snapshot file {rel} missing: {e}"))?;
    if !notif.snapshot().hash().matches(&snap_bytes) {
        return Err(format!("snapshot hash mismatch for {rel}"));
    }
    let snap = rpki::rrdp::Snapshot::parse(snap_bytes.as_slice())
        .map_err(|e| format!("cannot parse snapshot: {e}"))?;
    if snap.session_id() != notif.session_id() || snap.serial() != notif.serial() {
        return Err("snapshot session/serial differs from notification".into());
    }
    let mut view = RepoView::new();
    for el in snap.into_elements() {
        let (uri, data) = el.unpack();
        if view.insert(uri.to_string(), data).is_some() {
            return Err(format!("snapshot lists {uri} twice"));
        }
    }
    Ok((view, notif))
}

fn parent_dir(uri: &str) -> &str {
    match uri.rfind('/') {
        Some(i) => &uri[..=i],
        None => uri,
    }
}

fn hexs(b: &[u8]) -> String {
    hex::encode(b)
}

struct Walk<'a> {
    view: &'a RepoView,
    now: Time,
    res: RpResult,
    reached: BTreeSet<String>,
    seen_ca_keys: BTreeSet<String>,
}

/// Runs the top-down validation, starting from the TA certificate krill
/// serves for download.
pub fn validate(w: &World, view: &RepoView) -> RpResult {
    let mut walk = Walk {
        view,
        now: Time::now(),
        res: RpResult::default(),
        reached: BTreeSet::new(),
        seen_ca_keys: BTreeSet::new(),
    };
    let proxy = match w.krill.ca_manager().get_trust_anchor_proxy() {
        Ok(p) => p,
        Err(e) => {
            walk.res.rejections.push(("ta".into(), format!("no proxy: {e}")));
            return walk.res;
        }
    };
    let details = match proxy.get_ta_details() {
        Ok(d) => d.clone(),
        Err(e) => {
            walk.res.rejections.push(("ta".into(), format!("no TA cert: {e}")));
            return walk.res;
        }
    };
    let ta_bytes = details.cert.to_bytes();
    // The TAL must carry the key of the certificate.
    let tal_text = details.tal.to_string();
    let ta_cert = match Cert::decode(ta_bytes.clone()) {
        Ok(c) => c,
        Err(e) => {
            walk.res.rejections.push(("ta.cer".into(), format!("decode: {e}")));
            return walk.res;
        }
    };
    {
        use base64::Engine;
        let spki = ta_cert.subject_public_key_info().to_info_bytes();
        let b64 = base64::engine::general_purpose::STANDARD.encode(&spki);
        let tal_flat: String =
            tal_text.chars().filter(|c| !c.is_whitespace()).collect();
        if !tal_flat.contains(&b64) {
            walk.res.rejections.push((
                "ta.tal".into(),
                "TAL key differs from TA certificate key".into(),
            ));
        }
    }
    let tal = Arc::new(TalInfo::from_name("ta".into()));
    let ta = match ta_cert.validate_ta_at(tal, true, walk.now) {
        Ok(c) => c,
        Err(e) => {
            walk.res.rejections.push(("ta.cer".into(), format!("validate_ta: {e}")));
            return walk.res;
        }
    };
    walk.process_ca(&ta, "ta.cer".into(), 0);
    // Anything never reached?
    for uri in view.keys() {
        if !walk.reached.contains(uri) {
            walk.res.unreferenced.push(uri.clone());
        }
    }
    walk.res
}

impl<'a> Walk<'a> {
    fn reject(&mut self, uri: &str, why: impl Into<String>) {
        self.res.rejections.push((uri.to_string(), why.into()));
    }

    fn process_ca(&mut self, cert: &ResourceCert, cert_uri: String, depth: usize) {
        let ski = hexs(cert.subject_key_identifier().as_slice());
        if depth > 8 {
            self.reject(&cert_uri, "hierarchy too deep (loop?)");
            return;
        }
        let Some(repo) = cert.ca_repository().cloned() else {
            self.reject(&cert_uri, "CA cert without caRepository");
            return;
        };
        let Some(mft_uri) = cert.rpki_manifest().cloned() else {
            self.reject(&cert_uri, "CA cert without rpkiManifest");
            return;
        };
        let repo_s = repo.to_string();
        let mft_s = mft_uri.to_string();
        if !self.seen_ca_keys.insert(ski.clone()) {
            self.reject(&cert_uri, format!("CA key {ski} reached twice"));
            return;
        }
        let Some(mft_bytes) = self.view.get(&mft_s).cloned() else {
            self.reject(&cert_uri, format!("no manifest at {mft_s}"));
            return;
        };
        self.reached.insert(mft_s.clone());
        let mft = match Manifest::decode(mft_bytes, true) {
            Ok(m) => m,
            Err(e) => {
                self.reject(&mft_s, format!("manifest decode: {e}"));
                return;
            }
        };
        let (mft_ee, content) = match mft.validate_at(cert, true, self.now) {
            Ok(x) => x,
            Err(e) => {
                self.reject(&mft_s, format!("manifest validate: {e}"));
                return;
            }
        };
        if content.this_update() > self.now || content.next_update() <= self.now {
            self.reject(
                &mft_s,
                format!(
                    "manifest not current: this={} next={} now={}",
                    content.this_update().timestamp(),
                    content.next_update().timestamp(),
                    self.now.timestamp()
                ),
            );
            return;
        }
        // The CRL named by the manifest EE certificate.
        let Some(crl_uri) = mft_ee.crl_uri().cloned() else {
            self.reject(&mft_s, "manifest EE without CRLDP");
            return;
        };
        let crl_s = crl_uri.to_string();
        if parent_dir(&crl_s) != repo_s {
            self.reject(&mft_s, format!("CRL {crl_s} outside {repo_s}"));
            return;
        }
        // manifest entries
        let mut listed: BTreeMap<String, rpki::repository::manifest::FileAndHash<Bytes, Bytes>> =
            BTreeMap::new();
        for item in content.iter() {
            let name = String::from_utf8_lossy(item.file()).to_string();
            if listed.insert(name.clone(), item.clone()).is_some() {
                self.reject(&mft_s, format!("manifest lists {name} twice"));
            }
        }
        let crl_name = crl_s[repo_s.len()..].to_string();
        if !listed.contains_key(&crl_name) {
            self.reject(&mft_s, format!("CRL {crl_name} not on manifest"));
            return;
        }
        let Some(crl_bytes) = self.view.get(&crl_s).cloned() else {
            self.reject(&crl_s, "CRL listed but missing");
            return;
        };
        let crl = match Crl::decode(crl_bytes.clone()) {
            Ok(c) => c,
            Err(e) => {
                self.reject(&crl_s, format!("CRL decode: {e}"));
                return;
            }
        };
        if let Err(e) = crl.verify_signature(cert.subject_public_key_info()) {
            self.reject(&crl_s, format!("CRL signature: {e}"));
            return;
        }
        if crl.authority_key_identifier() != &cert.subject_key_identifier() {
            self.reject(&crl_s, "CRL AKI differs from CA SKI");
            return;
        }
        if crl.this_update() > self.now || crl.next_update() <= self.now {
            self.reject(
                &crl_s,
                format!(
                    "CRL not current: this={} next={} now={}",
                    crl.this_update().timestamp(),
                    crl.next_update().timestamp(),
                    self.now.timestamp()
                ),
            );
            return;
        }
        if crl.contains(mft_ee.serial_number()) {
            self.reject(&mft_s, "manifest EE certificate is revoked");
            return;
        }
        let crl_len = crl.revoked_certs().iter().count();
        let mut point = CaPoint {
            cert_uri: cert_uri.clone(),
            ski: ski.clone(),
            repo_dir: repo_s.clone(),
            mft_uri: mft_s.clone(),
            resources: resources_of(cert).to_string(),
            res: resources_of(cert),
            mft_number: content.manifest_number().to_string(),
            crl_number: crl.crl_number().to_string(),
            mft_this_update: content.this_update().timestamp(),
            mft_next_update: content.next_update().timestamp(),
            crl_next_update: crl.next_update().timestamp(),
            crl: Some(crl.clone()),
            crl_len,
            products: Vec::new(),
            depth,
        };
        self.res.accepted.push(ObjInfo {
            uri: mft_s.clone(),
            kind: "mft",
            issuer: ski.clone(),
            serial: mft_ee.serial_number().to_string(),
            serial_nr: Some(mft_ee.serial_number()),
            not_after: mft_ee.validity().not_after().timestamp(),
        });

        // every listed file must exist with the listed hash
        let mut children: Vec<(ResourceCert, String)> = Vec::new();
        for (name, item) in &listed {
            let uri_s = format!("{repo_s}{name}");
            let Some(bytes) = self.view.get(&uri_s).cloned() else {
                self.reject(&uri_s, format!("listed on {mft_s} but missing"));
                continue;
            };
            self.reached.insert(uri_s.clone());
            let hash = rpki::repository::manifest::ManifestHash::new(
                item.hash().clone(),
                content.file_hash_alg(),
            );
            if hash.verify(&bytes).is_err() {
                self.reject(&uri_s, "hash differs from manifest");
                continue;
            }
            if name == &crl_name {
                continue;
            }
            point.products.push(name.clone());
            let ext = name.rsplit('.').next().unwrap_or("");
            match ext {
                "cer" => {
                    let c = match Cert::decode(bytes.clone()) {
                        Ok(c) => c,
                        Err(e) => {
                            self.reject(&uri_s, format!("cert decode: {e}"));
                            continue;
                        }
                    };
                    if crl.contains(c.serial_number()) {
                        self.reject(&uri_s, "certificate is revoked");
                        continue;
                    }
                    if c.crl_uri().map(|u| u.to_string()) != Some(crl_s.clone()) {
                        self.reject(&uri_s, "certificate CRLDP is not the issuer's CRL");
                        continue;
                    }
                    let serial_nr = Some(c.serial_number());
                    let serial = c.serial_number().to_string();
                    let not_after = c.validity().not_after().timestamp();
                    if c.is_ca() {
                        match c.validate_ca_at(cert, true, self.now) {
                            Ok(rc) => {
                                self.res.accepted.push(ObjInfo {
                                    uri: uri_s.clone(),
                                    kind: "cer",
                                    issuer: ski.clone(),
                                    serial,
                                    serial_nr,
                                    not_after,
                                });
                                children.push((rc, uri_s.clone()));
                            }
                            Err(e) => self.reject(&uri_s, format!("validate_ca: {e}")),
                        }
                    } else {
                        match c.validate_router_at(cert, true, self.now) {
                            Ok(()) => {
                                self.res.accepted.push(ObjInfo {
                                    uri: uri_s.clone(),
                                    kind: "router",
                                    issuer: ski.clone(),
                                    serial,
                                    serial_nr,
                                    not_after,
                                });
                                let key = hexs(c.subject_key_identifier().as_slice());
                                let blocks = c.as_resources().to_blocks().unwrap_or_default();
                                for blk in blocks.iter() {
                                    let (min, max) = (blk.min().into_u32(), blk.max().into_u32());
                                    for a in min..=max.min(min + 64) {
                                        self.res.router_keys.insert((a, key.clone()));
                                    }
                                }
                            }
                            Err(e) => self.reject(&uri_s, format!("validate_router: {e}")),
                        }
                    }
                }
                "roa" => {
                    let roa = match Roa::decode(bytes.clone(), true) {
                        Ok(r) => r,
                        Err(e) => {
                            self.reject(&uri_s, format!("roa decode: {e}"));
                            continue;
                        }
                    };
                    let serial = roa.cert().serial_number();
                    let not_after = roa.cert().validity().not_after().timestamp();
                    let ee_crl = roa.cert().crl_uri().map(|u| u.to_string());
                    if ee_crl != Some(crl_s.clone()) {
                        self.reject(&uri_s, "ROA EE CRLDP is not the issuer's CRL");
                        continue;
                    }
                    let crl_ref = &crl;
                    match roa.process(cert, true, |ee| {
                        if crl_ref.contains(ee.serial_number()) {
                            Err(rpki::repository::error::ValidationError::from(
                                rpki::repository::error::VerificationError::new("revoked"),
                            ))
                        } else {
                            Ok(())
                        }
                    }) {
                        Ok((_ee, att)) => {
                            self.res.accepted.push(ObjInfo {
                                uri: uri_s.clone(),
                                kind: "roa",
                                issuer: ski.clone(),
                                serial: serial.to_string(),
                                serial_nr: Some(serial),
                                not_after,
                            });
                            let asn = att.as_id().into_u32();
                            for a in att.iter() {
                                self.res.vrps.insert(Vrp {
                                    prefix: format!(
                                        "{}/{}",
                                        a.address(),
                                        a.address_length()
                                    ),
                                    max_len: a.max_length(),
                                    asn,
                                });
                            }
                        }
                        Err(e) => self.reject(&uri_s, format!("roa validate: {e}")),
                    }
                }
                "asa" => {
                    let aspa = match Aspa::decode(bytes.clone(), true) {
                        Ok(r) => r,
                        Err(e) => {
                            self.reject(&uri_s, format!("aspa decode: {e}"));
                            continue;
                        }
                    };
                    let serial = aspa.cert().serial_number();
                    let not_after = aspa.cert().validity().not_after().timestamp();
                    let crl_ref = &crl;
                    match aspa.process(cert, true, |ee| {
                        if crl_ref.contains(ee.serial_number()) {
                            Err(rpki::repository::error::ValidationError::from(
                                rpki::repository::error::VerificationError::new("revoked"),
                            ))
                        } else {
                            Ok(())
                        }
                    }) {
                        Ok((_ee, att)) => {
                            self.res.accepted.push(ObjInfo {
                                uri: uri_s.clone(),
                                kind: "asa",
                                issuer: ski.clone(),
                                serial: serial.to_string(),
                                serial_nr: Some(serial),
                                not_after,
                            });
                            let mut provs: Vec<u32> = att
                                .provider_as_set()
                                .iter()
                                .map(|p| p.into_u32())
                                .collect();
                            provs.sort();
                            self.res
                                .aspas
                                .insert((att.customer_as().into_u32(), provs));
                        }
                        Err(e) => self.reject(&uri_s, format!("aspa validate: {e}")),
                    }
                }
                other => {
                    self.reject(&uri_s, format!("unknown object type .{other}"));
                }
            }
        }
        self.res.cas.push(point);
        for (rc, uri_s) in children {
            self.process_ca(&rc, uri_s, depth + 1);
        }
    }
}

pub fn resources_of(cert: &ResourceCert) -> ResourceSet {
    ResourceSet::new(
        cert.as_resources().clone(),
        cert.v4_resources().clone().into(),
        cert.v6_resources().clone().into(),
    )
}

/// For convenience: both views + validation, requiring the views agree.
pub fn full_check(w: &World) -> Result<RpResult, Vec<String>> {
    let lists = view_from_lists(w).map_err(|e| vec![e])?;
    let (rrdp, _notif) = view_from_rrdp(w).map_err(|e| vec![e])?;
    let mut errs = Vec::new();
    if lists != rrdp {
        for (k, v) in &lists {
            match rrdp.get(k) {
                None => errs.push(format!("in publisher lists but not in RRDP snapshot: {k}")),
                Some(x) if x != v => errs.push(format!("content differs between list and RRDP: {k}")),
                _ => {}
            }
        }
        for k in rrdp.keys() {
            if !lists.contains_key(k) {
                errs.push(format!("in RRDP snapshot but not in publisher lists: {k}"));
            }
        }
    }
    let res = validate(w, &rrdp);
    errs.extend(res.problems());
    if errs.is_empty() { Ok(res) } else { Err(errs) }
}

#[allow(dead_code)]
fn _uri_check(_u: uri::Rsync) {}
