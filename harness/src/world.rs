//! The world harness: a real KrillRuntime with embedded TA, local
//! publication server and a small CA hierarchy, driven in-process.

use std::collections::HashMap;
use std::path::PathBuf;
use std::str::FromStr;
use std::sync::Arc;

use krill::api;
use krill::api::admin::{
    AddChildRequest, ParentCaReq, RepositoryContact, UpdateChildRequest,
};
use krill::api::ca::Timestamp;
use krill::commons::actor::Actor;
use krill::commons::error::Error as KrillError;
use krill::commons::storage::{StorageSystem, StorageUri};
use krill::config::{
    AuthType, Config, ConfigDefaults, HttpsMode, IssuanceTimingConfig,
    LogType, MetricsConfig, RrdpUpdatesConfig, SignerReference, TestBed,
};
use krill::server::runtime::{KrillRuntime, SlowKrillRuntime};
use krill::server::scheduler::{VerifStepOutcome, verif_step};
use krill::tasigner::TaTimingConfig;
use rpki::ca::idexchange::{CaHandle, ChildHandle, ParentHandle, PublisherHandle};
use rpki::repository::resources::ResourceSet;
use rpki::uri;

use crate::clock;

pub type KResult<T> = Result<T, KrillError>;

//------------ WorldCfg ------------------------------------------------------

#[derive(Clone, Debug)]
pub struct WorldCfg {
    /// Disk back-end (relative path "data") or memory back-end.
    pub disk: bool,
    pub roa_aggregate_threshold: usize,
    pub roa_deaggregate_threshold: usize,
    pub timing: IssuanceTimingConfig,
    pub rrdp: RrdpUpdatesConfig,
    pub history_cache: bool,
    pub suspend_after_seconds: Option<u32>,
    pub ta_timing: TaTimingConfig,
}

impl Default for WorldCfg {
    fn default() -> Self {
        WorldCfg {
            disk: true,
            roa_aggregate_threshold: 3,
            roa_deaggregate_threshold: 2,
            timing: default_timing(),
            rrdp: RrdpUpdatesConfig {
                rrdp_delta_files_min_seconds: 0,
                rrdp_delta_files_min_nr: 5,
                rrdp_delta_files_max_seconds: 1,
                rrdp_delta_files_max_nr: 50,
                rrdp_delta_interval_min_seconds: 0,
                rrdp_files_archive: false,
            },
            history_cache: false,
            suspend_after_seconds: None,
            ta_timing: TaTimingConfig::default(),
        }
    }
}

pub fn default_timing() -> IssuanceTimingConfig {
    IssuanceTimingConfig {
        timing_publish_next_hours: ConfigDefaults::timing_publish_next_hours(),
        // no jitter: the oracle wants exact next-update times
        timing_publish_next_jitter_hours: 0,
        timing_publish_hours_before_next:
            ConfigDefaults::timing_publish_hours_before_next(),
        timing_child_certificate_valid_weeks:
            ConfigDefaults::timing_child_certificate_valid_weeks(),
        timing_child_certificate_reissue_weeks_before:
            ConfigDefaults::timing_child_certificate_reissue_weeks_before(),
        timing_roa_valid_weeks: ConfigDefaults::timing_roa_valid_weeks(),
        timing_roa_reissue_weeks_before:
            ConfigDefaults::timing_roa_reissue_weeks_before(),
        timing_aspa_valid_weeks: ConfigDefaults::timing_aspa_valid_weeks(),
        timing_aspa_reissue_weeks_before:
            ConfigDefaults::timing_aspa_reissue_weeks_before(),
        timing_bgpsec_valid_weeks: ConfigDefaults::timing_bgpsec_valid_weeks(),
        timing_bgpsec_reissue_weeks_before:
            ConfigDefaults::timing_bgpsec_reissue_weeks_before(),
    }
}

pub fn make_config(cfg: &WorldCfg) -> Config {
    krill::constants::enable_test_mode();
    let port = 3000u16;
    let testbed = Some(TestBed::new(
        uri::Rsync::from_str("rsync://localhost/ta/ta.cer").unwrap(),
        uri::Https::from_string(format!("https://localhost:{port}/ta/ta.cer"))
            .unwrap(),
        uri::Https::from_string(format!("https://localhost:{port}/rrdp/"))
            .unwrap(),
        uri::Rsync::from_str("rsync://localhost/repo/").unwrap(),
    ));
    let storage_uri = if cfg.disk {
        StorageUri::disk(PathBuf::from("data"))
    } else {
        StorageUri::memory(Some(1))
    };
    let mut res = Config {
        ip: ConfigDefaults::ip(),
        port,
        https_mode: HttpsMode::Generate,
        unix_socket_enabled: false,
        unix_socket: None,
        unix_users: HashMap::new(),
        storage_uri,
        use_history_cache: cfg.history_cache,
        tls_keys_dir: Some(PathBuf::from("ssl")),
        repo_dir: Some(PathBuf::from("repo")),
        ta_support_enabled: false,
        ta_signer_enabled: false,
        pid_file: Some(PathBuf::from("krill.pid")),
        service_uri: None,
        log_level: if std::env::var("VERIF_LOG").is_ok() {
            log::LevelFilter::Debug
        } else {
            log::LevelFilter::Off
        },
        log_type: LogType::Stderr,
        log_file: None,
        syslog_facility: ConfigDefaults::syslog_facility(),
        num_threads: Some(1),
        admin_token: api::admin::Token::from("secret"),
        auth_type: AuthType::AdminToken,
        auth_users: None,
        auth_openidconnect: None,
        auth_roles: ConfigDefaults::auth_roles(),
        default_signer: SignerReference::default(),
        one_off_signer: SignerReference::default(),
        signers: ConfigDefaults::signers(),
        signer_probe_retry_seconds: ConfigDefaults::signer_probe_retry_seconds(),
        ca_refresh_seconds: 86400,
        ca_refresh_jitter_seconds: 0,
        ca_refresh_parents_batch_size: 10,
        suspend_child_after_inactive_seconds: cfg.suspend_after_seconds,
        suspend_child_after_inactive_hours: None,
        post_limit_api: ConfigDefaults::post_limit_api(),
        post_limit_rfc8181: ConfigDefaults::post_limit_rfc8181(),
        rfc8181_log_dir: None,
        post_limit_rfc6492: ConfigDefaults::post_limit_rfc6492(),
        rfc6492_log_dir: None,
        post_protocol_msg_timeout_seconds:
            ConfigDefaults::post_protocol_msg_timeout_seconds(),
        bgp_riswhois_enabled: false,
        bgp_riswhois_v4_uri: ConfigDefaults::bgp_riswhois_v4_uri(),
        bgp_riswhois_v6_uri: ConfigDefaults::bgp_riswhois_v6_uri(),
        bgp_riswhois_refresh_interval:
            ConfigDefaults::bgp_riswhois_refresh_interval(),
        roa_aggregate_threshold: cfg.roa_aggregate_threshold,
        roa_deaggregate_threshold: cfg.roa_deaggregate_threshold,
        issuance_timing: cfg.timing,
        rrdp_updates_config: cfg.rrdp,
        metrics: MetricsConfig {
            metrics_hide_ca_details: false,
            metrics_hide_child_details: false,
            metrics_hide_publisher_details: false,
            metrics_hide_roa_details: false,
        },
        testbed,
        benchmark: None,
        ta_timing: cfg.ta_timing,
    };
    res.process().expect("config process");
    if std::env::var("VERIF_LOG").is_ok() {
        let _ = res.init_logging();
    }
    res
}

//------------ World ---------------------------------------------------------

pub struct World {
    pub cfg: WorldCfg,
    pub config: Config,
    pub tokio: Arc<tokio::runtime::Runtime>,
    pub krill: KrillRuntime,
    pub slow: SlowKrillRuntime,
    pub started: Timestamp,
    pub actor: Actor,
    /// Number of Restart operations performed so far.
    pub restarts: u32,
}

pub fn ca(s: &str) -> CaHandle {
    CaHandle::from_str(s).unwrap()
}
pub fn parent_h(s: &str) -> ParentHandle {
    ParentHandle::from_str(s).unwrap()
}
pub fn child_h(s: &str) -> ChildHandle {
    ChildHandle::from_str(s).unwrap()
}
pub fn pub_h(s: &str) -> PublisherHandle {
    PublisherHandle::from_str(s).unwrap()
}
pub fn res(asn: &str, v4: &str, v6: &str) -> ResourceSet {
    ResourceSet::from_strs(asn, v4, v6).unwrap()
}

/// When set, the embedded TA is created with this private key (PEM) instead
/// of a generated one (C15 re-initialises the signer with the same key).
pub static TA_KEY_PEM: std::sync::Mutex<Option<String>> = std::sync::Mutex::new(None);

impl World {
    /// Creates a fresh world in the current directory (which must be an
    /// empty scratch directory): publication server + embedded TA.
    pub fn new(cfg: WorldCfg) -> KResult<Self> {
        let tokio = Arc::new(
            tokio::runtime::Builder::new_current_thread()
                .enable_all()
                .build()
                .unwrap(),
        );
        let config = make_config(&cfg);
        let storage = StorageSystem::new(config.storage_uri.clone());
        let krill =
            KrillRuntime::new(config.clone(), storage, tokio.handle().clone())?;
        let slow = SlowKrillRuntime::new(krill.clone());
        let w = World {
            cfg,
            config,
            tokio,
            krill,
            slow,
            started: Timestamp::now(),
            actor: Actor::system("verif"),
            restarts: 0,
        };
        let tb = w.config.testbed().unwrap().clone();
        w.krill
            .repo_manager()
            .init(tb.publication_server_uris(), &w.krill)?;
        w.krill.ca_manager().ta_init_fully_embedded(
            tb.ta_aia().clone(),
            vec![tb.ta_uri().clone()],
            TA_KEY_PEM.lock().ok().and_then(|g| g.clone()),
            &w.actor,
            &w.slow,
        )?;
        Ok(w)
    }

    /// Drops the runtime and builds a new one on the same (disk) storage,
    /// then does what `StartupManager::run_scheduler` does before spawning
    /// the scheduler thread.
    pub fn restart(&mut self) -> KResult<()> {
        assert!(self.cfg.disk, "restart needs the disk back-end");
        let storage = StorageSystem::new(self.config.storage_uri.clone());
        let krill = KrillRuntime::new(
            self.config.clone(),
            storage,
            self.tokio.handle().clone(),
        )?;
        self.slow = SlowKrillRuntime::new(krill.clone());
        self.krill = krill;
        self.started = Timestamp::now();
        self.restarts += 1;
        self.krill.tasks().reschedule_tasks_at_startup()?;
        self.krill.tasks().schedule(
            krill::server::mq::Task::QueueStartTasks,
            krill::server::mq::now(),
        )?;
        Ok(())
    }

    /// Reopen without the start-up task logic (for recovery oracles).
    pub fn reopen(cfg: WorldCfg) -> KResult<Self> {
        let tokio = Arc::new(
            tokio::runtime::Builder::new_current_thread()
                .enable_all()
                .build()
                .unwrap(),
        );
        let config = make_config(&cfg);
        let storage = StorageSystem::new(config.storage_uri.clone());
        let krill =
            KrillRuntime::new(config.clone(), storage, tokio.handle().clone())?;
        let slow = SlowKrillRuntime::new(krill.clone());
        Ok(World {
            cfg,
            config,
            tokio,
            krill,
            slow,
            started: Timestamp::now(),
            actor: Actor::system("verif"),
            restarts: 0,
        })
    }

    //--- CA set-up (mirrors server::manager::import_ca)

    /// init CA + publisher + repo contact.
    pub fn add_ca(&self, name: &str) -> KResult<()> {
        let handle = ca(name);
        self.krill.ca_manager().init_ca(handle.clone(), &self.krill)?;
        self.attach_repo(name)
    }

    pub fn attach_repo(&self, name: &str) -> KResult<()> {
        let handle = ca(name);
        let pub_req = {
            let c = self.krill.ca_manager().get_ca(&handle)?;
            rpki::ca::idexchange::PublisherRequest::new(
                c.id_cert().base64.clone(),
                handle.convert(),
                None,
            )
        };
        self.krill
            .repo_manager()
            .create_publisher(pub_req, &self.actor)?;
        let resp = self
            .krill
            .repo_manager()
            .repository_response(&handle.convert(), &self.krill)?;
        let contact = RepositoryContact::try_from_response(resp)
            .map_err(KrillError::rfc8183)?;
        self.krill.ca_manager().update_repo(
            handle, contact, false, &self.actor, &self.slow,
        )
    }

    /// Register `child` under `parent` (which may be "ta") with resources and
    /// tell the child about the parent. No sync is done.
    pub fn add_child_link(
        &self, parent: &str, child: &str, resources: ResourceSet,
    ) -> KResult<()> {
        self.add_child_link_as(parent, child, parent, resources)
    }

    /// Same, but the child knows the parent under the local name
    /// `parent_local_name`.
    pub fn add_child_link_as(
        &self,
        parent: &str,
        child: &str,
        parent_local_name: &str,
        resources: ResourceSet,
    ) -> KResult<()> {
        self.add_child_link_named(parent, child, child, parent_local_name, resources)
    }

    /// Same, and the parent registers the child under `child_name_at_parent`
    /// (which need not be the child CA's own handle).
    pub fn add_child_link_named(
        &self,
        parent: &str,
        child: &str,
        child_name_at_parent: &str,
        parent_local_name: &str,
        resources: ResourceSet,
    ) -> KResult<()> {
        let child_ca = ca(child);
        let id_cert = {
            let c = self.krill.ca_manager().get_ca(&child_ca)?;
            c.child_request().validate().map_err(KrillError::rfc8183)?
        };
        let req = AddChildRequest {
            handle: ca(child_name_at_parent).convert(),
            resources,
            id_cert,
        };
        let response = self.krill.ca_manager().ca_add_child(
            &ca(parent),
            req,
            &self.actor,
            &self.krill,
        )?;
        let parent_req = ParentCaReq {
            handle: parent_h(parent_local_name),
            response,
        };
        self.krill.ca_manager().ca_parent_add_or_update(
            child_ca,
            parent_req,
            &self.actor,
            &self.krill,
        )
    }

    pub fn sync_parent(&self, child: &str, parent: &str) -> KResult<bool> {
        self.krill.ca_manager().ca_sync_parent(
            &ca(child),
            0,
            &parent_h(parent),
            &self.actor,
            &self.slow,
        )
    }

    pub fn sync_ta(&self) -> KResult<()> {
        self.krill
            .ca_manager()
            .sync_ta_proxy_signer_if_possible(&self.krill)
    }

    pub fn update_child(
        &self, parent: &str, child: &str, req: UpdateChildRequest,
    ) -> KResult<()> {
        self.krill.ca_manager().ca_child_update(
            &ca(parent),
            child_h(child),
            req,
            &self.actor,
            &self.krill,
        )
    }

    //--- Scheduler stand-in

    /// One iteration of the scheduler's inner loop.
    pub fn step(&self) -> VerifStepOutcome {
        verif_step(&self.slow, self.started)
    }

    /// Runs due tasks until nothing is due *now*; when only tasks due within
    /// `horizon_s` remain that were rescheduled as "premature" / short retry,
    /// advances the clock second by second (at most `horizon_s`).
    /// Returns the processed task keys, or the fatal reason.
    pub fn pump(&self) -> Result<Vec<String>, String> {
        self.pump_with(2, 200)
    }

    pub fn pump_with(
        &self, horizon_s: i64, max_steps: usize,
    ) -> Result<Vec<String>, String> {
        let mut done = Vec::new();
        let mut advanced = 0;
        loop {
            match self.step() {
                VerifStepOutcome::Processed { task_key, result, .. } => {
                    done.push(format!("{task_key}:{result}"));
                    if done.len() > max_steps {
                        return Err(format!(
                            "pump: more than {max_steps} steps: livelock? {:?}",
                            &done[done.len() - 6..]
                        ));
                    }
                }
                VerifStepOutcome::Fatal(reason) => return Err(reason),
                VerifStepOutcome::Idle => {
                    // anything due within the remaining horizon?
                    match self.next_due_in() {
                        Some(d) if d <= horizon_s - advanced && d > 0 => {
                            clock::advance(d);
                            advanced += d;
                        }
                        _ => break,
                    }
                }
            }
        }
        Ok(done)
    }

    /// Seconds until the earliest pending task is due (<= 0: due now).
    pub fn next_due_in(&self) -> Option<i64> {
        let now_ms = (clock::now_epoch() as i128) * 1000;
        self.pending_tasks()
            .iter()
            .map(|(ts, _)| ((*ts as i128 - now_ms) as f64 / 1000.0).ceil() as i64)
            .min()
    }

    /// (due timestamp ms, name) of every pending task.
    pub fn pending_tasks(&self) -> Vec<(u128, String)> {
        self.task_keys("pending")
    }

    pub fn running_tasks(&self) -> Vec<(u128, String)> {
        self.task_keys("running")
    }

    fn task_keys(&self, scope: &str) -> Vec<(u128, String)> {
        use krill::commons::storage::Ident;
        let kv = self
            .krill
            .storage()
            .open(krill::constants::TASK_QUEUE_NS)
            .expect("open tasks");
        let scope = Ident::boxed_from_string(scope.to_string()).unwrap();
        let mut res = Vec::new();
        for key in kv.keys(Some(&scope), "").unwrap_or_default() {
            let s = key.to_string();
            if let Some((ts, name)) = s.split_once('-')
                && let Ok(ts) = ts.parse::<u128>()
            {
                res.push((ts, name.to_string()));
            }
        }
        res.sort();
        res
    }
}

impl World {
    /// The recurring parent refresh had its turn: every CA syncs with every
    /// parent (top-down, two rounds), pumping in between.
    pub fn settle(&self) -> Result<Vec<String>, String> {
        self.settle_observed(&mut |_, _| {})
    }

    /// Like `settle`; `observe` is called after every CA had its turn (its
    /// synchronisations with its parents and the tasks they trigger), i.e.
    /// at every instant at which the repository is quiescent in between.
    pub fn settle_observed(&self, observe: &mut dyn FnMut(&World, &str)) -> Result<Vec<String>, String> {
        let mut tasks = self.pump()?;
        for _round in 0..2 {
            let cm = self.krill.ca_manager();
            let mut cas: Vec<(usize, String, Vec<String>)> = Vec::new();
            for h in cm.ca_handles().unwrap_or_default() {
                if let Ok(c) = cm.get_ca(&h) {
                    let parents: Vec<String> =
                        c.parents().map(|p| p.to_string()).collect();
                    cas.push((0, h.to_string(), parents));
                }
            }
            // depth = distance from the TA through local parents
            let names: Vec<(String, Vec<String>)> =
                cas.iter().map(|c| (c.1.clone(), c.2.clone())).collect();
            for c in cas.iter_mut() {
                c.0 = depth_of(&c.1, &names, 0);
            }
            cas.sort();
            for (_, name, parents) in &cas {
                for p in parents {
                    // a suspended child is one that does not call in: the
                    // refresh round must not wake it up (calling in would
                    // unsuspend it)
                    if p != "ta"
                        && let Ok(pca) = cm.get_ca(&ca(p))
                        && let Ok(det) = pca.get_child(&child_h(name))
                        && det.state.is_suspended()
                    {
                        continue;
                    }
                    let _ = self.sync_parent(name, p);
                }
                tasks.extend(self.pump()?);
                observe(self, name);
            }
        }
        Ok(tasks)
    }
}

fn depth_of(name: &str, all: &[(String, Vec<String>)], guard: usize) -> usize {
    if guard > 8 {
        return guard;
    }
    let Some((_, parents)) = all.iter().find(|c| c.0 == name) else {
        return 0;
    };
    parents
        .iter()
        .map(|p| {
            if p == "ta" { 1 } else { 1 + depth_of(p, all, guard + 1) }
        })
        .max()
        .unwrap_or(0)
}

//------------ standard topologies -------------------------------------------

pub const PARENT_RES: (&str, &str, &str) =
    ("AS65000-AS65010", "10.0.0.0/8", "2001:db8::/32");

impl World {
    /// TA -> parent (full PARENT_RES), quiescent.
    pub fn build_ta_parent(cfg: WorldCfg) -> KResult<Self> {
        let w = World::new(cfg)?;
        w.add_ca("parent")?;
        w.add_child_link(
            "ta",
            "parent",
            res(PARENT_RES.0, PARENT_RES.1, PARENT_RES.2),
        )?;
        w.sync_parent("parent", "ta")?;
        w.sync_parent("parent", "ta")?;
        w.sync_ta()?;
        w.sync_parent("parent", "ta")?;
        w.pump().map_err(|e| KrillError::custom(e))?;
        Ok(w)
    }

    /// TA -> parent -> ca, with `ca` entitled to `ca_res`. Quiescent.
    pub fn build_w2(cfg: WorldCfg, ca_res: ResourceSet) -> KResult<Self> {
        let w = Self::build_ta_parent(cfg)?;
        w.add_ca("ca")?;
        w.add_child_link("parent", "ca", ca_res)?;
        w.pump().map_err(|e| KrillError::custom(e))?;
        Ok(w)
    }

    /// TA -> parent -> ca -> gc. Quiescent.
    pub fn build_w3(
        cfg: WorldCfg, ca_res: ResourceSet, gc_res: ResourceSet,
    ) -> KResult<Self> {
        let w = Self::build_w2(cfg, ca_res)?;
        w.add_ca("gc")?;
        w.add_child_link("ca", "gc", gc_res)?;
        w.pump().map_err(|e| KrillError::custom(e))?;
        Ok(w)
    }
}
